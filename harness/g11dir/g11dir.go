// Package g11dir holds the fakes shared by the g11 checks (C34-C37): a
// harness-made directive.Instance, a recording directive.ResolverHandler, a
// silent logger and a condition-based quiescence detector (DESIGN 3.6).
package g11dir

import (
	"context"
	"io"
	"regexp"
	"runtime"
	"strings"
	"sync"
	"time"

	"github.com/aperturerobotics/controllerbus/directive"
	"github.com/sirupsen/logrus"
)

// QuietLogger returns a logger that discards everything.
func QuietLogger() *logrus.Entry {
	l := logrus.New()
	l.SetOutput(io.Discard)
	l.SetLevel(logrus.PanicLevel)
	return logrus.NewEntry(l)
}

// FakeRef is a reference handed out by FakeInstance.
type FakeRef struct {
	inst     *FakeInstance
	Handler  directive.ReferenceHandler
	Weak     bool
	released bool
}

// Release releases the reference.
func (r *FakeRef) Release() {
	r.inst.mu.Lock()
	if !r.released {
		r.released = true
		r.inst.releases++
	}
	r.inst.mu.Unlock()
}

// FakeInstance is a harness-made directive.Instance. It carries a directive,
// records references and callbacks and never resolves anything on its own.
type FakeInstance struct {
	ctx context.Context
	dir directive.Directive

	mu         sync.Mutex
	refs       []*FakeRef
	releases   int
	disposeCbs []func()
	idleCbs    []directive.IdleCallback
	closed     bool
}

// NewFakeInstance builds a FakeInstance for dir.
func NewFakeInstance(ctx context.Context, dir directive.Directive) *FakeInstance {
	return &FakeInstance{ctx: ctx, dir: dir}
}

// GetContext returns the context given at construction.
func (i *FakeInstance) GetContext() context.Context { return i.ctx }

// GetDirective returns the directive.
func (i *FakeInstance) GetDirective() directive.Directive { return i.dir }

// GetDirectiveIdent returns the directive name.
func (i *FakeInstance) GetDirectiveIdent() string { return i.dir.GetName() }

// GetResolverErrors returns nil.
func (i *FakeInstance) GetResolverErrors() []error { return nil }

// AddReference records the reference.
func (i *FakeInstance) AddReference(cb directive.ReferenceHandler, weakRef bool) directive.Reference {
	r := &FakeRef{inst: i, Handler: cb, Weak: weakRef}
	i.mu.Lock()
	i.refs = append(i.refs, r)
	i.mu.Unlock()
	return r
}

// AddDisposeCallback records the callback.
func (i *FakeInstance) AddDisposeCallback(cb func()) func() {
	i.mu.Lock()
	i.disposeCbs = append(i.disposeCbs, cb)
	i.mu.Unlock()
	return func() {}
}

// AddIdleCallback records the callback and calls it once with (false, nil).
func (i *FakeInstance) AddIdleCallback(cb directive.IdleCallback) func() {
	i.mu.Lock()
	i.idleCbs = append(i.idleCbs, cb)
	i.mu.Unlock()
	cb(false, nil)
	return func() {}
}

// AddStateCallback calls cb once with the empty state.
func (i *FakeInstance) AddStateCallback(cb directive.StateCallback) func() {
	cb(false, nil, nil)
	return func() {}
}

// CloseIfUnreferenced reports whether the instance was closed.
func (i *FakeInstance) CloseIfUnreferenced(inclWeakRefs bool) bool {
	i.mu.Lock()
	defer i.mu.Unlock()
	return i.closed
}

// Close marks the instance closed.
func (i *FakeInstance) Close() {
	i.mu.Lock()
	i.closed = true
	i.mu.Unlock()
}

// Refs returns the number of references added and released.
func (i *FakeInstance) Refs() (added, released int) {
	i.mu.Lock()
	defer i.mu.Unlock()
	return len(i.refs), i.releases
}

var _ directive.Instance = (*FakeInstance)(nil)

// HandlerEvent is one recorded call on a FakeResolverHandler.
type HandlerEvent struct {
	Kind  string // "add", "remove", "idle", "clear", "add-resolver"
	ID    uint32
	Value directive.Value
	Idle  bool
}

// FakeResolverHandler records AddValue / RemoveValue / MarkIdle.
type FakeResolverHandler struct {
	mu     sync.Mutex
	next   uint32
	vals   map[uint32]directive.Value
	order  []uint32
	events []HandlerEvent
	notify chan struct{}
}

// NewFakeResolverHandler builds a recording resolver handler.
func NewFakeResolverHandler() *FakeResolverHandler {
	return &FakeResolverHandler{vals: map[uint32]directive.Value{}, notify: make(chan struct{}, 1)}
}

func (h *FakeResolverHandler) ping() {
	select {
	case h.notify <- struct{}{}:
	default:
	}
}

// AddValue records and accepts the value.
func (h *FakeResolverHandler) AddValue(v directive.Value) (uint32, bool) {
	h.mu.Lock()
	h.next++
	id := h.next
	h.vals[id] = v
	h.order = append(h.order, id)
	h.events = append(h.events, HandlerEvent{Kind: "add", ID: id, Value: v})
	h.mu.Unlock()
	h.ping()
	return id, true
}

// RemoveValue records the removal.
func (h *FakeResolverHandler) RemoveValue(id uint32) (directive.Value, bool) {
	h.mu.Lock()
	v, ok := h.vals[id]
	if ok {
		delete(h.vals, id)
		h.events = append(h.events, HandlerEvent{Kind: "remove", ID: id, Value: v})
	}
	h.mu.Unlock()
	h.ping()
	return v, ok
}

// CountValues returns the number of live values.
func (h *FakeResolverHandler) CountValues(allResolvers bool) int {
	h.mu.Lock()
	defer h.mu.Unlock()
	return len(h.vals)
}

// ClearValues removes all values.
func (h *FakeResolverHandler) ClearValues() []uint32 {
	h.mu.Lock()
	var ids []uint32
	for _, id := range h.order {
		if _, ok := h.vals[id]; ok {
			ids = append(ids, id)
			delete(h.vals, id)
		}
	}
	h.events = append(h.events, HandlerEvent{Kind: "clear"})
	h.mu.Unlock()
	h.ping()
	return ids
}

// MarkIdle records the idle mark.
func (h *FakeResolverHandler) MarkIdle(idle bool) {
	h.mu.Lock()
	h.events = append(h.events, HandlerEvent{Kind: "idle", Idle: idle})
	h.mu.Unlock()
	h.ping()
}

// AddValueRemovedCallback is a no-op.
func (h *FakeResolverHandler) AddValueRemovedCallback(id uint32, cb func()) func() {
	return func() {}
}

// AddResolverRemovedCallback is a no-op.
func (h *FakeResolverHandler) AddResolverRemovedCallback(cb func()) func() { return func() {} }

// AddResolver records the request; the child resolver is not run.
func (h *FakeResolverHandler) AddResolver(res directive.Resolver, cb func()) func() {
	h.mu.Lock()
	h.events = append(h.events, HandlerEvent{Kind: "add-resolver"})
	h.mu.Unlock()
	return func() {}
}

// Events returns a copy of the recorded events.
func (h *FakeResolverHandler) Events() []HandlerEvent {
	h.mu.Lock()
	defer h.mu.Unlock()
	return append([]HandlerEvent(nil), h.events...)
}

// Values returns the live values in insertion order.
func (h *FakeResolverHandler) Values() []directive.Value {
	h.mu.Lock()
	defer h.mu.Unlock()
	var out []directive.Value
	for _, id := range h.order {
		if v, ok := h.vals[id]; ok {
			out = append(out, v)
		}
	}
	return out
}

// Notify returns a channel that receives after every recorded call.
func (h *FakeResolverHandler) Notify() <-chan struct{} { return h.notify }

// WaitFor blocks until cond(events) is true. The watchdog only bounds the
// wait: its expiry returns false (caller reports inconclusive).
func (h *FakeResolverHandler) WaitFor(cond func(ev []HandlerEvent) bool, watchdog time.Duration) bool {
	t := time.NewTimer(watchdog)
	defer t.Stop()
	for {
		if cond(h.Events()) {
			return true
		}
		select {
		case <-h.notify:
		case <-t.C:
			return cond(h.Events())
		}
	}
}

var _ directive.ResolverHandler = (*FakeResolverHandler)(nil)

// ---- quiescence (DESIGN 3.6) ----

var goroutineHdr = regexp.MustCompile(`^goroutine (\d+) \[([^\],]+)(?:, [^\]]*)?\]:`)

// parked are the goroutine wait states that count as "nothing left to do
// until someone else acts".
var parked = map[string]bool{
	"select":                  true,
	"chan receive":            true,
	"chan send":               true,
	"sync.Cond.Wait":          true,
	"sync.WaitGroup.Wait":     true,
	"select (no cases)":       true,
	"chan receive (nil chan)": true,
}

var (
	snapMu  sync.Mutex
	snapBuf = make([]byte, 64<<10)
)

// Snapshot is the (id,state) list of the selected goroutines.
type Snapshot struct {
	Selected int
	Busy     []string // "id state" of selected goroutines that are not parked
	Dump     string
}

// TakeSnapshot dumps all goroutines and classifies those whose stack contains
// one of the substrings in sel. The calling goroutine is never selected.
func TakeSnapshot(sel []string) Snapshot {
	snapMu.Lock()
	defer snapMu.Unlock()
	var dump string
	for {
		n := runtime.Stack(snapBuf, true)
		if n < len(snapBuf) {
			dump = string(snapBuf[:n])
			break
		}
		snapBuf = make([]byte, 2*len(snapBuf))
	}
	var s Snapshot
	blocks := strings.Split(dump, "\n\n")
	for bi, b := range blocks {
		if bi == 0 {
			continue // the first block is the calling goroutine
		}
		m := goroutineHdr.FindStringSubmatch(b)
		if m == nil {
			continue
		}
		hit := false
		for _, x := range sel {
			if strings.Contains(b, x) {
				hit = true
				break
			}
		}
		if !hit {
			continue
		}
		s.Selected++
		if !parked[m[2]] {
			s.Busy = append(s.Busy, m[1]+" "+m[2])
		}
	}
	s.Dump = dump
	return s
}

// Quiesce waits until two consecutive snapshots show every selected goroutine
// parked and counters() unchanged in between. It returns false when the
// watchdog expires first (inconclusive, never a verdict).
func Quiesce(sel []string, counters func() string, watchdog time.Duration) (bool, Snapshot) {
	deadline := time.NewTimer(watchdog)
	defer deadline.Stop()
	var last Snapshot
	streak := 0
	prev := ""
	for {
		c1 := counters()
		last = TakeSnapshot(sel)
		c2 := counters()
		if len(last.Busy) == 0 && c1 == c2 && (streak == 0 || c1 == prev) {
			streak++
			prev = c1
			if streak >= 3 {
				return true, last
			}
		} else {
			streak = 0
		}
		select {
		case <-deadline.C:
			return false, last
		default:
		}
		runtime.Gosched()
		time.Sleep(200 * time.Microsecond)
	}
}
