// Package vf is the shared runtime-monitoring scaffolding: seed and tier
// handling, case accounting, evidence writing, violation / known-finding
// reporting and witness (replay) files.
//
// One check = one Go test package with a single entry point that does
//
//	r := vf.Start(t, "C13", vf.Exploration)
//	defer r.Finish()
//	... r.Begin(desc) ; run case ; r.Case(sig, nontrivial) ; r.Violation(...)
//
// The check binary is run as a child process by /verif/bin/check which
// post-processes crashes and race-detector logs.
package vf

import (
	"crypto/sha256"
	"encoding/hex"
	"encoding/json"
	"fmt"
	"math/rand/v2"
	"os"
	"path/filepath"
	"sort"
	"strconv"
	"strings"
	"sync"
	"testing"
	"time"
)

// Levels (EVIDENCE.schema.json "level").
const (
	Exploration      = "exploration"
	FaultEnumeration = "fault_enumeration"
	Other            = "other"
)

// Run is the per-check accounting object. All methods are safe for
// concurrent use.
type Run struct {
	t     testing.TB
	id    string
	level string
	tier  string
	seed  uint64
	dir   string
	start time.Time

	mu           sync.Mutex
	evaluations  int
	sigs         map[string]struct{}
	samples      []any
	maxSamples   int
	counts       map[string]int64
	extra        map[string]any
	distinct     map[string]map[string]struct{}
	rule         string
	assumptions  []string
	violations   int
	known        map[string]string // key -> text of known finding lines for this property
	knownHit     map[string]int
	violKeys     map[string]int
	inconclusive int
	inconcl      []string
	finished     bool
	exhaustive   bool
	curFile      *os.File
}

// Dir returns the /verif directory (env VERIF_DIR, default /verif).
func Dir() string {
	if d := os.Getenv("VERIF_DIR"); d != "" {
		return d
	}
	return "/verif"
}

// Start begins a check run.
func Start(t testing.TB, id, level string) *Run {
	r := &Run{
		t: t, id: id, level: level, dir: Dir(), start: time.Now(),
		sigs: map[string]struct{}{}, counts: map[string]int64{}, extra: map[string]any{},
		distinct: map[string]map[string]struct{}{}, known: map[string]string{},
		knownHit: map[string]int{}, violKeys: map[string]int{}, maxSamples: 6,
	}
	r.tier = os.Getenv("VERIF_TIER")
	if r.tier != "thorough" {
		r.tier = "quick"
	}
	r.seed = 1
	if s := os.Getenv("VERIF_SEED"); s != "" {
		if v, err := strconv.ParseUint(s, 10, 64); err == nil {
			r.seed = v
		} else if v, err := strconv.ParseInt(s, 10, 64); err == nil {
			r.seed = uint64(v)
		}
	}
	r.loadKnown()
	_ = os.MkdirAll(filepath.Join(r.dir, "logs"), 0o755)
	f, err := os.Create(filepath.Join(r.dir, "logs", id+".current"))
	if err == nil {
		r.curFile = f
	}
	fmt.Printf("VF-START property=%s tier=%s seed=%d\n", id, r.tier, r.seed)
	return r
}

func (r *Run) loadKnown() {
	b, err := os.ReadFile(filepath.Join(r.dir, "KNOWN_FINDINGS.txt"))
	if err != nil {
		return
	}
	for _, ln := range strings.Split(string(b), "\n") {
		ln = strings.TrimSpace(ln)
		if !strings.HasPrefix(ln, "known-finding:") {
			continue
		}
		f := strings.Fields(strings.TrimPrefix(ln, "known-finding:"))
		var prop, key string
		var rest []string
		for _, w := range f {
			switch {
			case strings.HasPrefix(w, "property=") && prop == "":
				prop = strings.TrimPrefix(w, "property=")
			case strings.HasPrefix(w, "key=") && key == "":
				key = strings.TrimPrefix(w, "key=")
			default:
				rest = append(rest, w)
			}
		}
		if prop == r.id && key != "" {
			r.known[key] = strings.Join(rest, " ")
		}
	}
}

// ID returns the property id.
func (r *Run) ID() string { return r.id }

// Seed returns the run's seed.
func (r *Run) Seed() uint64 { return r.seed }

// Tier returns "quick" or "thorough".
func (r *Run) Tier() string { return r.tier }

// Quick reports whether this is the quick tier.
func (r *Run) Quick() bool { return r.tier != "thorough" }

// N picks a per-tier case count.
func (r *Run) N(quick, thorough int) int {
	if r.Quick() {
		return quick
	}
	return thorough
}

// Rand returns a new deterministic PRNG for the named stream (a pure
// function of seed and stream name; independent streams so that adding a
// sub-check does not shift the cases of another).
func (r *Run) Rand(stream string) *rand.Rand {
	h := sha256.Sum256([]byte(stream))
	var s2 uint64
	for i := 0; i < 8; i++ {
		s2 = s2<<8 | uint64(h[i])
	}
	return rand.New(rand.NewPCG(r.seed, s2))
}

// Reader is an io.Reader over a PRNG (for deterministic key generation).
type Reader struct{ R *rand.Rand }

func (p Reader) Read(b []byte) (int, error) {
	for i := range b {
		b[i] = byte(p.R.UintN(256))
	}
	return len(b), nil
}

// SetRule records how cases are generated and what counts as non-trivial.
func (r *Run) SetRule(s string) { r.mu.Lock(); r.rule = s; r.mu.Unlock() }

// Assume records an assumption / trusted-base statement.
func (r *Run) Assume(s string) { r.mu.Lock(); r.assumptions = append(r.assumptions, s); r.mu.Unlock() }

// SetExhaustive marks that a finite space was enumerated completely.
func (r *Run) SetExhaustive(b bool) { r.mu.Lock(); r.exhaustive = b; r.mu.Unlock() }

// Begin journals the case that is about to run (flushed to disk so the
// witness survives a crash of the process). Cheap enough for ms-scale cases;
// for µs-scale cases journal once per batch.
func (r *Run) Begin(desc string) {
	r.mu.Lock()
	defer r.mu.Unlock()
	if r.curFile != nil {
		_, _ = r.curFile.Seek(0, 0)
		_ = r.curFile.Truncate(0)
		_, _ = fmt.Fprintf(r.curFile, "property=%s tier=%s seed=%d\n%s\n", r.id, r.tier, r.seed, desc)
	}
}

// Case counts one executed case. sig identifies the case for distinctness
// (hashed); nontrivial says whether it satisfies the check's non-triviality
// rule.
func (r *Run) Case(sig string, nontrivial bool) {
	r.mu.Lock()
	r.evaluations++
	if nontrivial {
		h := sha256.Sum256([]byte(sig))
		r.sigs[string(h[:12])] = struct{}{}
	}
	r.mu.Unlock()
}

// Sample keeps v as one of the literal sample cases (first few only).
func (r *Run) Sample(v any) {
	r.mu.Lock()
	if len(r.samples) < r.maxSamples {
		r.samples = append(r.samples, v)
	}
	r.mu.Unlock()
}

// Count adds n to a named observation counter (events of a kind observed).
func (r *Run) Count(key string, n int) { r.mu.Lock(); r.counts[key] += int64(n); r.mu.Unlock() }

// Distinct records a value into a named set; the set sizes are reported in
// evidence (distinct interleavings, states, ...).
func (r *Run) Distinct(set, value string) {
	r.mu.Lock()
	m := r.distinct[set]
	if m == nil {
		m = map[string]struct{}{}
		r.distinct[set] = m
	}
	h := sha256.Sum256([]byte(value))
	m[string(h[:12])] = struct{}{}
	r.mu.Unlock()
}

// Extra sets a free-form coverage key.
func (r *Run) Extra(key string, v any) { r.mu.Lock(); r.extra[key] = v; r.mu.Unlock() }

// Inconclusive records a case whose verdict could not be decided.
func (r *Run) Inconclusive(what string) {
	r.mu.Lock()
	r.inconclusive++
	if len(r.inconcl) < 10 {
		r.inconcl = append(r.inconcl, what)
	}
	r.mu.Unlock()
	fmt.Printf("VF-INCONCLUSIVE property=%s %s\n", r.id, what)
}

// Violation reports a violation. key is the stable identity of the failing
// call site / input class; if KNOWN_FINDINGS.txt lists it for this property a
// KNOWN-FINDING line is printed (once per key) and the run continues,
// otherwise a witness file is written and a VIOLATION line printed (at most a
// few per key). Returns true if it was a new (unlisted) violation.
func (r *Run) Violation(key, what string, witness any) bool {
	r.mu.Lock()
	defer r.mu.Unlock()
	if txt, ok := r.known[key]; ok {
		r.knownHit[key]++
		if r.knownHit[key] == 1 {
			fmt.Printf("KNOWN-FINDING: property=%s key=%s %s\n", r.id, key, txt)
		}
		return false
	}
	r.violations++
	r.violKeys[key]++
	if r.violKeys[key] > 3 {
		return true
	}
	dir := filepath.Join(r.dir, "replays", r.id)
	_ = os.MkdirAll(dir, 0o755)
	safe := strings.Map(func(c rune) rune {
		if c >= 'a' && c <= 'z' || c >= 'A' && c <= 'Z' || c >= '0' && c <= '9' || c == '-' || c == '_' || c == '.' {
			return c
		}
		return '_'
	}, key)
	if len(safe) > 80 {
		safe = safe[:80]
	}
	path := filepath.Join(dir, fmt.Sprintf("%s-seed%d-%d.json", safe, r.seed, r.violKeys[key]))
	doc := map[string]any{
		"property_id": r.id, "tier": r.tier, "seed": r.seed, "key": key, "what": what, "witness": witness,
	}
	b, err := json.MarshalIndent(doc, "", " ")
	if err != nil {
		b, _ = json.MarshalIndent(map[string]any{
			"property_id": r.id, "tier": r.tier, "seed": r.seed, "key": key, "what": what, "witness": fmt.Sprintf("%+v", witness),
		}, "", " ")
	}
	_ = os.WriteFile(path, b, 0o644)
	fmt.Printf("VF-VIOLATION-DETAIL property=%s key=%s %s\n", r.id, key, what)
	fmt.Printf("VIOLATION property=%s replay=%s\n", r.id, path)
	return true
}

// Violations returns the number of new violations so far.
func (r *Run) Violations() int { r.mu.Lock(); defer r.mu.Unlock(); return r.violations }

// Finish writes the evidence file and fails the test on violations or when
// nothing non-trivial was observed.
func (r *Run) Finish() {
	r.mu.Lock()
	if r.finished {
		r.mu.Unlock()
		return
	}
	r.finished = true
	cov := map[string]any{
		"evaluations":         r.evaluations,
		"distinct_nontrivial": len(r.sigs),
		"rule":                r.rule,
		"samples":             r.samples,
		"inconclusive":        r.inconclusive,
	}
	if r.samples == nil {
		cov["samples"] = []any{}
	}
	if r.exhaustive {
		cov["exhaustive"] = true
	}
	if len(r.counts) > 0 {
		cov["observed"] = r.counts
	}
	for set, m := range r.distinct {
		cov["distinct_"+set] = len(m)
	}
	for k, v := range r.extra {
		cov[k] = v
	}
	if len(r.inconcl) > 0 {
		cov["inconclusive_cases"] = r.inconcl
	}
	if len(r.knownHit) > 0 {
		keys := make([]string, 0, len(r.knownHit))
		for k := range r.knownHit {
			keys = append(keys, k)
		}
		sort.Strings(keys)
		cov["known_findings_hit"] = keys
	}
	if r.level == Other {
		if _, ok := cov["explanation"]; !ok {
			cov["explanation"] = r.rule
		}
	}
	ev := map[string]any{
		"property_id": r.id,
		"tier":        r.tier,
		"seed":        r.seed,
		"level":       r.level,
		"coverage":    cov,
		"assumptions": r.assumptions,
		"wall_s":      time.Since(r.start).Seconds(),
		"violations":  r.violations,
	}
	if r.assumptions == nil {
		ev["assumptions"] = []string{}
	}
	viol, evals, nd := r.violations, r.evaluations, len(r.sigs)
	inc := r.inconclusive
	if r.curFile != nil {
		r.curFile.Close()
		_ = os.Remove(r.curFile.Name())
	}
	r.mu.Unlock()

	b, err := json.MarshalIndent(ev, "", " ")
	if err != nil {
		r.t.Fatalf("vf: cannot marshal evidence: %v", err)
	}
	_ = os.MkdirAll(filepath.Join(r.dir, "evidence"), 0o755)
	p := filepath.Join(r.dir, "evidence", r.id+".json")
	if err := os.WriteFile(p, b, 0o644); err != nil {
		r.t.Fatalf("vf: cannot write evidence: %v", err)
	}
	fmt.Printf("VF-DONE property=%s evaluations=%d distinct_nontrivial=%d violations=%d inconclusive=%d\n", r.id, evals, nd, viol, inc)
	if viol > 0 {
		r.t.Fatalf("%d violation(s)", viol)
	}
	if evals == 0 || nd < 2 {
		fmt.Printf("VF-ERROR property=%s nothing non-trivial observed (evaluations=%d distinct=%d)\n", r.id, evals, nd)
		r.t.Fatalf("nothing non-trivial observed")
	}
	if inc > 0 && inc*2 > evals {
		fmt.Printf("VF-ERROR property=%s majority of cases inconclusive (%d of %d)\n", r.id, inc, evals)
		r.t.Fatalf("majority inconclusive")
	}
}

// Hex is a short helper for signatures and samples.
func Hex(b []byte) string {
	if len(b) > 48 {
		return hex.EncodeToString(b[:48]) + fmt.Sprintf("...(%d bytes)", len(b))
	}
	return hex.EncodeToString(b)
}

// Try runs f and converts a panic into (true, description).
func Try(f func()) (panicked bool, desc string) {
	defer func() {
		if x := recover(); x != nil {
			panicked = true
			desc = fmt.Sprint(x)
		}
	}()
	f()
	return false, ""
}
