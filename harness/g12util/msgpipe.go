package g12util

import (
	"io"
	"sync"
	"sync/atomic"
)

// MsgEnd is one end of an in-memory, reliable, message-preserving duplex pipe
// (a stand-in for a detached WebRTC data channel: one Write = one message, one
// Read = one message). It implements pion's datachannel.ReadWriteCloser.
type MsgEnd struct {
	in     chan []byte
	out    chan []byte
	closed chan struct{}
	once   sync.Once
	peer   *MsgEnd

	// Sent / Received count messages (harness evidence).
	Sent, Received atomic.Int64
}

// NewMsgPipe returns the two connected ends.
func NewMsgPipe() (*MsgEnd, *MsgEnd) {
	ab := make(chan []byte, 1024)
	ba := make(chan []byte, 1024)
	a := &MsgEnd{in: ba, out: ab, closed: make(chan struct{})}
	b := &MsgEnd{in: ab, out: ba, closed: make(chan struct{})}
	a.peer, b.peer = b, a
	return a, b
}

// Read returns the next message (truncated to len(p)); io.EOF after either end
// was closed and the queue is drained.
func (e *MsgEnd) Read(p []byte) (int, error) {
	select {
	case m := <-e.in:
		e.Received.Add(1)
		return copy(p, m), nil
	default:
	}
	select {
	case m := <-e.in:
		e.Received.Add(1)
		return copy(p, m), nil
	case <-e.closed:
		return 0, io.ErrClosedPipe
	case <-e.peer.closed:
		// drain what was sent before the close
		select {
		case m := <-e.in:
			e.Received.Add(1)
			return copy(p, m), nil
		default:
			return 0, io.EOF
		}
	}
}

// Write sends one message. Messages to a closed peer are dropped.
func (e *MsgEnd) Write(p []byte) (int, error) {
	select {
	case <-e.closed:
		return 0, io.ErrClosedPipe
	default:
	}
	m := append([]byte(nil), p...)
	select {
	case e.out <- m:
		e.Sent.Add(1)
		return len(p), nil
	case <-e.closed:
		return 0, io.ErrClosedPipe
	case <-e.peer.closed:
		return len(p), nil
	}
}

// ReadDataChannel implements datachannel.Reader.
func (e *MsgEnd) ReadDataChannel(p []byte) (int, bool, error) {
	n, err := e.Read(p)
	return n, false, err
}

// WriteDataChannel implements datachannel.Writer.
func (e *MsgEnd) WriteDataChannel(p []byte, isString bool) (int, error) {
	return e.Write(p)
}

// Close closes this end (both directions stop).
func (e *MsgEnd) Close() error {
	e.once.Do(func() { close(e.closed) })
	return nil
}

// Closed reports whether Close was called on this end.
func (e *MsgEnd) Closed() bool {
	select {
	case <-e.closed:
		return true
	default:
		return false
	}
}
