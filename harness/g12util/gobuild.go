package g12util

import (
	"encoding/json"
	"errors"
	"fmt"
	"os"
	"os/exec"
	"path/filepath"
	"runtime"
	"strings"
)

// GoTool finds the Go toolchain: $VERIF_GO, the GOROOT the test binary was
// built with, the sandbox's toolchain path, then PATH.
func GoTool() (string, error) {
	for _, c := range []string{os.Getenv("VERIF_GO"), filepath.Join(runtime.GOROOT(), "bin", "go"),
		"/root/go/pkg/mod/golang.org/toolchain@v0.0.1-go1.25.0.linux-amd64/bin/go"} {
		if c == "" {
			continue
		}
		if fi, err := os.Stat(c); err == nil && !fi.IsDir() {
			return c, nil
		}
	}
	if p, err := exec.LookPath("go"); err == nil {
		return p, nil
	}
	return "", errors.New("no go toolchain found")
}

// ToolEnv is the environment for helper processes: the race-runtime and
// scheduler settings of the check binary are removed.
func ToolEnv(extra ...string) []string {
	var clean []string
	for _, kv := range os.Environ() {
		if strings.HasPrefix(kv, "GORACE=") || strings.HasPrefix(kv, "GOMAXPROCS=") || strings.HasPrefix(kv, "GOFLAGS=") {
			continue
		}
		clean = append(clean, kv)
	}
	return append(clean, extra...)
}

// GoBuild runs "go build -o out pkg" in dir (plain build: no race detector, no tags).
func GoBuild(dir, out, pkg string) error {
	gobin, err := GoTool()
	if err != nil {
		return err
	}
	cmd := exec.Command(gobin, "build", "-o", out, pkg)
	cmd.Dir = dir
	cmd.Env = ToolEnv("GOFLAGS=-mod=mod", "GOPROXY=off", "GOTOOLCHAIN=local")
	if b, err := cmd.CombinedOutput(); err != nil {
		return fmt.Errorf("%s build %s in %s: %v: %s", gobin, pkg, dir, err, b)
	}
	return nil
}

// GrindPairJSON is what grindcmd prints per pair: the view and the two stream counters.
type GrindPairJSON struct {
	Family string `json:"family"`
	K      int    `json:"k"`
	I      uint64 `json:"i"`
	J      uint64 `json:"j"`
}

// GrindExternal builds g12util/grindcmd (harnessDir = root of the verifharness
// module) into tmpDir and runs the search there, without the race detector.
// Every pair is re-derived and verified in this process (MakeGrindPair).
func GrindExternal(harnessDir, tmpDir, tag string, n int, views []IDView, maxPerView int) (map[string][]GrindPair, error) {
	bin := filepath.Join(tmpDir, "grindcmd")
	if err := GoBuild(harnessDir, bin, "./g12util/grindcmd"); err != nil {
		return nil, err
	}
	args := []string{tag, fmt.Sprint(n), fmt.Sprint(maxPerView)}
	for _, v := range views {
		args = append(args, fmt.Sprintf("%s:%d:%d", v.Family, v.K, v.MaxN))
	}
	cmd := exec.Command(bin, args...)
	cmd.Env = ToolEnv()
	cmd.Stderr = nil
	b, err := cmd.Output()
	if err != nil {
		return nil, fmt.Errorf("grindcmd: %v", err)
	}
	var ps []GrindPairJSON
	if err := json.Unmarshal(b, &ps); err != nil {
		return nil, fmt.Errorf("grindcmd output: %v", err)
	}
	out := make(map[string][]GrindPair)
	for _, p := range ps {
		v := NewIDView(p.Family, p.K)
		gp, err := MakeGrindPair(v, GrindSeed(tag, p.I), GrindSeed(tag, p.J))
		if err != nil {
			return nil, fmt.Errorf("grindcmd pair %s #%d/#%d does not verify: %v", v.Name(), p.I, p.J, err)
		}
		gp.I, gp.J = p.I, p.J
		out[v.Name()] = append(out[v.Name()], gp)
	}
	return out, nil
}
