package g12util

// Birthday search ("grinder") for pairs of REAL key-derived Ed25519 peer
// identities that are distinct but coincide under a lossy view of the id (same
// last k base58 characters, same first k characters, equal case-folded tail,
// same trailing / leading public-key bytes, ...). Such pairs are the hostile
// inputs for any decision that is supposed to depend on the whole id (C26: the
// offerer/answerer role).
//
// Everything is a pure function of (tag, n): key i of the stream `tag` has the
// 32-byte Ed25519 seed GrindSeed(tag, i).

import (
	"crypto/ed25519"
	"encoding/binary"
	"fmt"
	"slices"
	"strings"
	"sync"

	"github.com/aperturerobotics/bifrost/crypto"
	"github.com/aperturerobotics/bifrost/peer"
	"verifharness/keys"
)

// GrindSeed returns the Ed25519 seed of key i of the stream tag: the tag
// (truncated / zero padded to 24 bytes) followed by the big-endian counter.
func GrindSeed(tag string, i uint64) [32]byte {
	var s [32]byte
	copy(s[:24], tag)
	binary.BigEndian.PutUint64(s[24:], i)
	return s
}

// IdentityFromSeed derives the identity of an Ed25519 seed through the real
// bifrost key and peer-id code.
func IdentityFromSeed(seed [32]byte) (*keys.Identity, error) {
	priv, err := crypto.UnmarshalEd25519PrivateKey(ed25519.NewKeyFromSeed(seed[:]))
	if err != nil {
		return nil, err
	}
	id, err := peer.IDFromPrivateKey(priv)
	if err != nil {
		return nil, err
	}
	p, err := peer.NewPeer(priv)
	if err != nil {
		return nil, err
	}
	return &keys.Identity{Priv: priv, Pub: priv.GetPublic(), ID: id, Peer: p}, nil
}

// IDView is one lossy view of a peer id: F maps the id (base58 text and raw
// multihash bytes) to what the view keeps of it.
type IDView struct {
	// Family is the kind of view, K its parameter (characters / bytes kept).
	Family string
	K      int
	// MaxN bounds the number of stream keys searched for this view by Grind (0 = all).
	MaxN int
	F    func(b58 string, raw []byte) string
}

// Name returns e.g. "suffix-6".
func (v IDView) Name() string { return fmt.Sprintf("%s-%d", v.Family, v.K) }

// ConstPrefixLen is the length of the part all Ed25519 peer ids share ("12D3KooW").
const ConstPrefixLen = 8

func tail(s string, k int) string {
	if len(s) <= k {
		return s
	}
	return s[len(s)-k:]
}

func head(s string, k int) string {
	if len(s) <= k {
		return s
	}
	return s[:k]
}

// NewIDView builds the view (family, k). Families:
//
//	suffix       last k base58 characters (k=6 is what peer.ID.ShortString keeps)
//	prefix       first k base58 characters (the first 8 are constant)
//	foldsuffix   last k base58 characters, lower-cased
//	foldprefix   first k base58 characters, lower-cased
//	ends         first k and last 4 base58 characters ("12D3KooWAbcd..wxyz" abbreviations)
//	bytesuffix   last k bytes of the raw id (= of the public key)
//	byteprefix   first 6+k bytes of the raw id (= the first k bytes of the public key)
func NewIDView(family string, k int) IDView {
	v := IDView{Family: family, K: k}
	switch family {
	case "suffix":
		v.F = func(s string, _ []byte) string { return tail(s, k) }
	case "prefix":
		v.F = func(s string, _ []byte) string { return head(s, k) }
	case "foldsuffix":
		v.F = func(s string, _ []byte) string { return strings.ToLower(tail(s, k)) }
	case "foldprefix":
		v.F = func(s string, _ []byte) string { return strings.ToLower(head(s, k)) }
	case "ends":
		v.F = func(s string, _ []byte) string { return head(s, k) + ".." + tail(s, 4) }
	case "bytesuffix":
		v.F = func(_ string, raw []byte) string { return tail(string(raw), k) }
	case "byteprefix":
		v.F = func(_ string, raw []byte) string { return head(string(raw), 6+k) }
	default:
		panic("g12util: unknown id view family " + family)
	}
	return v
}

// GrindPair is a pair of distinct stream keys whose ids coincide under View.
type GrindPair struct {
	View         string // IDView.Name()
	Family       string
	K            int
	I, J         uint64 // stream counters, I < J
	SeedA, SeedB [32]byte
	IDA, IDB     string // base58 ids
	Common       string // the shared view value
}

type hv struct {
	h uint64
	i uint32
}

func fnv64(s string) uint64 {
	h := uint64(14695981039346656037)
	for i := 0; i < len(s); i++ {
		h ^= uint64(s[i])
		h *= 1099511628211
	}
	// finalizer so that the top bits (used for bucketing) are well mixed
	h ^= h >> 32
	h *= 0xd6e8feb86659fd93
	h ^= h >> 32
	return h
}

// rawIDOfSeed computes the raw peer id bytes of a seed without going through
// the bifrost wrappers (search speed). The pairs returned by Grind are
// re-derived through IdentityFromSeed and compared, so a disagreement between
// this shortcut and the real derivation cannot go unnoticed.
func rawIDOfSeed(seed [32]byte, buf []byte) []byte {
	pk := ed25519.NewKeyFromSeed(seed[:])
	buf = append(buf[:0], 0x00, 0x24, 0x08, 0x01, 0x12, 0x20)
	return append(buf, pk[32:]...)
}

// Grind searches keys 0..n-1 of the stream tag for pairs colliding under each
// of the views, using `workers` goroutines. At most maxPerView pairs are
// returned per view, those with the smallest larger counter first
// (deterministic). Every returned pair was re-derived through the real
// identity code and verified: distinct ids, equal view.
func Grind(tag string, n int, views []IDView, workers, maxPerView int) (map[string][]GrindPair, error) {
	if n > 1<<32-1 {
		return nil, fmt.Errorf("n too large")
	}
	if workers < 1 {
		workers = 1
	}
	tabs := make([][]hv, len(views))
	lim := make([]int, len(views))
	for vi, v := range views {
		lim[vi] = n
		if v.MaxN > 0 && v.MaxN < n {
			lim[vi] = v.MaxN
		}
		tabs[vi] = make([]hv, lim[vi])
	}
	const chunk = 4096
	var next int
	var mu sync.Mutex
	var wg sync.WaitGroup
	for w := 0; w < workers; w++ {
		wg.Add(1)
		go func() {
			defer wg.Done()
			buf := make([]byte, 0, 64)
			for {
				mu.Lock()
				lo := next
				next += chunk
				mu.Unlock()
				if lo >= n {
					return
				}
				for i := lo; i < min(lo+chunk, n); i++ {
					raw := rawIDOfSeed(GrindSeed(tag, uint64(i)), buf)
					b58 := peer.ID(raw).String()
					for vi := range views {
						if i < lim[vi] {
							tabs[vi][i] = hv{fnv64(views[vi].F(b58, raw)), uint32(i)}
						}
					}
				}
			}
		}()
	}
	wg.Wait()

	out := make(map[string][]GrindPair)
	for vi, v := range views {
		tab := tabs[vi]
		parSort(tab, workers)
		type cand struct{ i, j uint32 }
		var cands []cand
		for a := 0; a < len(tab); {
			b := a + 1
			for b < len(tab) && tab[b].h == tab[a].h {
				b++
			}
			if b-a >= 2 {
				grp := make([]uint32, 0, b-a)
				for _, e := range tab[a:b] {
					grp = append(grp, e.i)
				}
				slices.Sort(grp)
				// consecutive members only: a group of m keys yields m-1 pairs
				for x := 1; x < len(grp); x++ {
					cands = append(cands, cand{grp[x-1], grp[x]})
				}
			}
			a = b
		}
		slices.SortFunc(cands, func(x, y cand) int {
			if x.j != y.j {
				return int(int64(x.j) - int64(y.j))
			}
			return int(int64(x.i) - int64(y.i))
		})
		for _, c := range cands {
			if len(out[v.Name()]) >= maxPerView {
				break
			}
			p, err := MakeGrindPair(v, GrindSeed(tag, uint64(c.i)), GrindSeed(tag, uint64(c.j)))
			if err != nil {
				continue // 64-bit hash collision of different view values, or equal ids
			}
			p.I, p.J = uint64(c.i), uint64(c.j)
			out[v.Name()] = append(out[v.Name()], p)
		}
		tabs[vi] = nil
	}
	return out, nil
}

// MakeGrindPair derives both identities through the real code and verifies that
// they are distinct and coincide under v.
func MakeGrindPair(v IDView, sa, sb [32]byte) (GrindPair, error) {
	a, err := IdentityFromSeed(sa)
	if err != nil {
		return GrindPair{}, err
	}
	b, err := IdentityFromSeed(sb)
	if err != nil {
		return GrindPair{}, err
	}
	if a.ID == b.ID {
		return GrindPair{}, fmt.Errorf("same id")
	}
	va, vb := v.F(a.ID.String(), []byte(a.ID)), v.F(b.ID.String(), []byte(b.ID))
	if va != vb {
		return GrindPair{}, fmt.Errorf("views differ: %q vs %q", va, vb)
	}
	return GrindPair{View: v.Name(), Family: v.Family, K: v.K, SeedA: sa, SeedB: sb, IDA: a.ID.String(), IDB: b.ID.String(), Common: va}, nil
}

// parSort sorts tab by (h, i): bucket on the top byte of h, then sort the
// buckets in parallel.
func parSort(tab []hv, workers int) {
	cmp := func(x, y hv) int {
		switch {
		case x.h < y.h:
			return -1
		case x.h > y.h:
			return 1
		case x.i < y.i:
			return -1
		case x.i > y.i:
			return 1
		}
		return 0
	}
	if len(tab) < 1<<16 || workers < 2 {
		slices.SortFunc(tab, cmp)
		return
	}
	var cnt [257]int
	for _, e := range tab {
		cnt[(e.h>>56)+1]++
	}
	for b := 1; b <= 256; b++ {
		cnt[b] += cnt[b-1]
	}
	tmp := make([]hv, len(tab))
	pos := cnt
	for _, e := range tab {
		b := e.h >> 56
		tmp[pos[b]] = e
		pos[b]++
	}
	copy(tab, tmp)
	var wg sync.WaitGroup
	sem := make(chan struct{}, workers)
	for b := 0; b < 256; b++ {
		wg.Add(1)
		sem <- struct{}{}
		go func() {
			defer wg.Done()
			defer func() { <-sem }()
			slices.SortFunc(tab[cnt[b]:cnt[b+1]], cmp)
		}()
	}
	wg.Wait()
}
