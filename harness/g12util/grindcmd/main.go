// Command grindcmd runs g12util.Grind as a separate process, so that the key
// grinding is not slowed down by the race detector of the check binary.
//
//	grindcmd <tag> <n> <maxPerView> <family:k:maxn>...
//
// Output: one JSON document on stdout (see g12util.GrindResultJSON).
package main

import (
	"encoding/json"
	"fmt"
	"os"
	"runtime"
	"strconv"
	"strings"

	"verifharness/g12util"
)

func main() {
	if len(os.Args) < 5 {
		fmt.Fprintln(os.Stderr, "usage: grindcmd tag n maxPerView family:k:maxn...")
		os.Exit(2)
	}
	n, e1 := strconv.Atoi(os.Args[2])
	per, e2 := strconv.Atoi(os.Args[3])
	if e1 != nil || e2 != nil {
		fmt.Fprintln(os.Stderr, "bad numbers")
		os.Exit(2)
	}
	var views []g12util.IDView
	for _, spec := range os.Args[4:] {
		f := strings.Split(spec, ":")
		if len(f) != 3 {
			fmt.Fprintln(os.Stderr, "bad view", spec)
			os.Exit(2)
		}
		k, _ := strconv.Atoi(f[1])
		m, _ := strconv.Atoi(f[2])
		v := g12util.NewIDView(f[0], k)
		v.MaxN = m
		views = append(views, v)
	}
	res, err := g12util.Grind(os.Args[1], n, views, runtime.NumCPU(), per)
	if err != nil {
		fmt.Fprintln(os.Stderr, err)
		os.Exit(1)
	}
	var out []g12util.GrindPairJSON
	for _, v := range views {
		for _, p := range res[v.Name()] {
			out = append(out, g12util.GrindPairJSON{Family: p.Family, K: p.K, I: p.I, J: p.J})
		}
	}
	_ = json.NewEncoder(os.Stdout).Encode(out)
}
