// Package g12util holds input generators shared by the g12 checks (C26, C38, C39).
package g12util

import (
	"math/rand/v2"
	"strings"
)

// RandBytes returns n PRNG bytes.
func RandBytes(rng *rand.Rand, n int) []byte {
	b := make([]byte, n)
	for i := range b {
		b[i] = byte(rng.UintN(256))
	}
	return b
}

// RandFrom returns a string of n characters drawn from alphabet.
func RandFrom(rng *rand.Rand, alphabet string, n int) string {
	rs := []rune(alphabet)
	var sb strings.Builder
	for i := 0; i < n; i++ {
		sb.WriteRune(rs[rng.IntN(len(rs))])
	}
	return sb.String()
}

// Adversarial is a fixed list of strings that tend to upset parsers.
func Adversarial() []string {
	return []string{
		"", " ", "\t", "\n", "\r\n", "\x00", "\x00\x00", "a\x00b", "\xff", "\xff\xfe", "\xc0\x80", "\xed\xa0\x80", "\xf4\x90\x80\x80",
		"|", "||", "|||", "a|", "|a", "a|b", "a|b|c", " | | ",
		"0", "-0", "+0", "1", "-1", "00", "0x10", "1e3", "1e400", "-1e400", "1.5", ".5", "5.", "NaN", "Inf", "-Inf",
		"9223372036854775807", "9223372036854775808", "-9223372036854775808", "-9223372036854775809", "18446744073709551616",
		strings.Repeat("9", 400), "-" + strings.Repeat("9", 400), "0." + strings.Repeat("0", 400) + "1",
		"null", "true", "false", "{}", "[]", "[1]", "{\"a\":1}", "\"\"", "\"", "\"a", "\\", "\\u0000", "\"\\ud800\"", "'a'",
		"-----BEGIN", "-----BEGIN ", "-----BEGIN-----", "-----BEGIN LIBP2P PRIVATE KEY-----", "-----BEGIN LIBP2P PRIVATE KEY-----\n-----END LIBP2P PRIVATE KEY-----",
		"-----BEGIN LIBP2P PUBLIC KEY-----\n!!!!\n-----END LIBP2P PUBLIC KEY-----\n", "-----BEGIN X-----\nAAAA\n-----END X-----\n",
		"%", "%zz", "%00", "://", "http://", "http://[::1", "http://[::1]:99999999999", "http://a b", "http://\x7f", "http://%41", ":", "#", "?", "//", "\\\\", "a:b:c",
		"(", ")", "[", "a{2,1}", "a{1001}", "(?P<n>", "(?i", "\\C", "\\", "[[:foo:]]", "a**", strings.Repeat("(", 2000), strings.Repeat("(a", 500) + strings.Repeat(")", 500), "((a{100}){100}){100}",
		"1h", "1h2m3.5s", "-1.5h", "1us", "1µs", "1μs", "1.s", "1e3s", "+5m", "5", "s", "1d", "1h-1m", "9223372036854775807ns", "9223372036854775808ns", "-9223372036854775808ns",
		"2562047h47m16.854775807s", "2562047h47m16.854775808s", "-2562047h47m16.854775808s", "0.000000000000000000000000000001ns", "99999999999999999999h",
		"2021-08-15T15:49:13Z", "2021-08-15T15:49:13.5Z", "2021-08-15T15:49:13+02:00", "2021-08-15 15:49:13Z", "2021-08-15t15:49:13z", "2021-02-30T00:00:00Z", "2016-12-31T23:59:60Z",
		"0000-01-01T00:00:00Z", "0001-01-01T00:00:00Z", "9999-12-31T23:59:59.999999999Z", "10000-01-01T00:00:00Z", "-0001-01-01T00:00:00Z", "2021-08-15T15:49:13.1234567891Z", "2021-08-15T15:49:13,5Z",
		"1629048153000", "-1", "-62135596800000", "-62135596800001", "253402300799999", "253402300800000", "1629048153000.5", "1629048153000 ", " 1629048153000",
		"日本語", "a\u202eb", "\ufeff", "\U0010ffff", "🙂", "é", "e\u0301",
		"12D3KooW", "Qm", "1", "11111111111111111111", "z", "0OIl",
	}
}

// Garbage returns a PRNG string in one of several flavours.
func Garbage(rng *rand.Rand) string {
	switch rng.IntN(7) {
	case 0:
		return string(RandBytes(rng, rng.IntN(24)))
	case 1:
		return string(RandBytes(rng, rng.IntN(600)))
	case 2:
		return RandFrom(rng, "123456789ABCDEFGHJKLMNPQRSTUVWXYZabcdefghijkmnopqrstuvwxyz", rng.IntN(80))
	case 3:
		return RandFrom(rng, "0123456789-+.:TZeE ", rng.IntN(40))
	case 4:
		return RandFrom(rng, "abc/|:?#[]@%. -_\\\"'(){}*+^$", rng.IntN(40))
	case 5:
		return RandFrom(rng, "hmsnuµμ0123456789.-+", rng.IntN(20))
	default:
		return RandFrom(rng, "aé日🙂\x00\n |%", rng.IntN(30))
	}
}
