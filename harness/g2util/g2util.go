// Package g2util holds small helpers shared by the g2 checks (C12, C14, C15):
// a deterministic parallel-for and PRNG byte helpers. Nothing in here decides
// a verdict.
package g2util

import (
	"math/rand/v2"
	"runtime"
	"sync"
	"sync/atomic"
)

// ParFor runs f(i) for i in [0,n) on up to GOMAXPROCS goroutines. The set of
// indices is fixed; only the order of execution varies, so the cases executed
// are a pure function of the (pre-generated) case list.
func ParFor(n int, f func(i int)) {
	w := runtime.GOMAXPROCS(0)
	if w > 16 {
		w = 16
	}
	if w > n {
		w = n
	}
	if w <= 1 {
		for i := 0; i < n; i++ {
			f(i)
		}
		return
	}
	var next atomic.Int64
	var wg sync.WaitGroup
	for g := 0; g < w; g++ {
		wg.Add(1)
		go func() {
			defer wg.Done()
			for {
				i := int(next.Add(1)) - 1
				if i >= n {
					return
				}
				f(i)
			}
		}()
	}
	wg.Wait()
}

// Bytes returns n PRNG bytes.
func Bytes(r *rand.Rand, n int) []byte {
	b := make([]byte, n)
	for i := 0; i+8 <= n; i += 8 {
		v := r.Uint64()
		b[i], b[i+1], b[i+2], b[i+3] = byte(v), byte(v>>8), byte(v>>16), byte(v>>24)
		b[i+4], b[i+5], b[i+6], b[i+7] = byte(v>>32), byte(v>>40), byte(v>>48), byte(v>>56)
	}
	for i := n &^ 7; i < n; i++ {
		b[i] = byte(r.UintN(256))
	}
	return b
}

// Clone copies b (nil stays nil).
func Clone(b []byte) []byte {
	if b == nil {
		return nil
	}
	c := make([]byte, len(b))
	copy(c, b)
	return c
}

// ParForBatch is ParFor over consecutive batches [lo,hi) of at most size
// indices, so that the body can aggregate its bookkeeping per batch.
func ParForBatch(n, size int, f func(lo, hi int)) {
	if size < 1 {
		size = 1
	}
	nb := (n + size - 1) / size
	ParFor(nb, func(b int) {
		lo := b * size
		hi := lo + size
		if hi > n {
			hi = n
		}
		f(lo, hi)
	})
}
