package g10sol

import (
	"fmt"
	"time"

	link_solicit_controller "github.com/aperturerobotics/bifrost/link/solicit/controller"
	"github.com/aperturerobotics/controllerbus/directive"
)

// Step operations of a Scenario.Script.
const (
	// OpAdd registers request Dir of node Node and waits until it is registered
	// with the node's solicitation controller (idle).
	OpAdd = "add"
	// OpRelease makes request Dir of node Node go away: Via 0 = Instance.Close on
	// its bus instance, Via 1 = Reference.Release + Instance.CloseIfUnreferenced
	// (both real controllerbus calls; the resolver is cancelled asynchronously);
	// a ModeDirect request: the harness cancels the resolver context and waits
	// until Resolve has returned, i.e. the controller has dropped the
	// solicitation (deterministic, no quiescence needed).
	OpRelease = "release"
	// OpQuiesce waits for process-wide quiescence (executed for a whole batch in
	// lock-step).
	OpQuiesce = "quiesce"
	// OpStall makes every write of node Node on the solicitation CONTROL streams
	// wait (back-pressure) until OpUnstall; OpAwaitStalled waits until a writer of
	// that node is parked by the stall (its control loop is inside sendExchange).
	OpStall        = "stall"
	OpUnstall      = "unstall"
	OpAwaitStalled = "await-stalled"
)

// Step is one step of a scripted history.
type Step struct {
	Op   string `json:"op"`
	Node int    `json:"node"`
	Dir  int    `json:"dir,omitempty"`
	Via  int    `json:"via,omitempty"`
}

func (st Step) String() string {
	switch st.Op {
	case OpAdd:
		return fmt.Sprintf("+%d.%d", st.Node, st.Dir)
	case OpRelease:
		return fmt.Sprintf("-%d.%d/%d", st.Node, st.Dir, st.Via)
	case OpQuiesce:
		return "Q"
	}
	return fmt.Sprintf("%s%d", st.Op, st.Node)
}

// DerivNote documents one derivation relation between two (id, context) pairs
// of a scenario (contexts in hex: they are binary).
type DerivNote struct {
	Rule        string `json:"rule"`
	BaseID      string `json:"base_protocol_id"`
	BaseCtxHex  string `json:"base_context_hex"`
	BaseCtxLen  int    `json:"base_context_len"`
	DerivID     string `json:"derived_protocol_id"`
	DerivCtxHex string `json:"derived_context_hex"`
	DerivCtxLen int    `json:"derived_context_len"`
	base, deriv pcPair
}

// derivRule names the derivation that relates the two pairs ("" = unrelated).
func (s *Scenario) derivRule(ap, ac, bp, bc string) string {
	for _, d := range s.Deriv {
		if (d.base == pcPair{ap, ac} && d.deriv == pcPair{bp, bc}) || (d.base == pcPair{bp, bc} && d.deriv == pcPair{ap, ac}) {
			return d.Rule
		}
	}
	return ""
}

// segments cuts the history of a dynamic scenario at its quiescence points.
func (s *Scenario) segments() [][]Step {
	var out [][]Step
	if len(s.Script) == 0 {
		for _, st := range s.stageList() {
			var seg []Step
			for _, w := range st {
				seg = append(seg, Step{Op: OpAdd, Node: w[0], Dir: w[1]})
			}
			out = append(out, seg)
		}
		return out
	}
	var cur []Step
	for _, st := range s.Script {
		if st.Op == OpQuiesce {
			out = append(out, cur)
			cur = nil
			continue
		}
		cur = append(cur, st)
	}
	return append(out, cur)
}

// Released reports whether the script releases request di of node n.
func (s *Scenario) Released(n, di int) bool {
	for _, st := range s.Script {
		if st.Op == OpRelease && st.Node == n && st.Dir == di {
			return true
		}
	}
	return false
}

// firstEver returns the first request node n EVER registers (script order) with
// the (id, context) of d that admits link li (-1: none).
func (s *Scenario) firstEver(n int, d DirSpec, li int) int {
	for _, st := range s.Script {
		if st.Op != OpAdd || st.Node != n {
			continue
		}
		o := s.Dirs[n][st.Dir]
		if o.P == d.P && o.C == d.C && s.Admits(o, li) {
			return st.Dir
		}
	}
	return -1
}

// scriptMustHave: what the property text guarantees at the end of a scripted
// history with releases. A request that is still registered at the end must
// have a value for link li when the other node has a still-registered request
// with the same (id, context) admitting the link. The controller opens ONE
// stream per (pair, link) and never re-matches, so this is only claimed when on
// BOTH nodes the request in question is the first one the node ever registered
// for that pair and link: then the pair has been solicited by both sides without
// interruption from the later of the two registrations on, and both requests
// exist whenever the match is made. Values of released requests are not judged.
func (s *Scenario) scriptMustHave(n, di, li int) bool {
	if s.Released(n, di) {
		return false
	}
	d := s.Dirs[n][di]
	if s.firstEver(n, d, li) != di {
		return false
	}
	o := s.firstEver(1-n, d, li)
	return o >= 0 && !s.Released(1-n, o)
}

// setStall switches the back-pressure on node ni's control-stream writes.
func (t *TwoNode) setStall(ni int, on bool) {
	t.mu.Lock()
	defer t.mu.Unlock()
	t.Nodes[ni].stallCtl.Store(on)
	for _, rec := range t.streams {
		if rec.Proto != link_solicit_controller.ControlProtocolID {
			continue
		}
		end := 1
		if rec.Opener == ni {
			end = 0
		}
		rec.Ends[end].StallWrites(on)
	}
}

// stalledWriters counts the control-stream writes of node ni parked by a stall.
func (t *TwoNode) stalledWriters(ni int) int {
	c := 0
	for _, rec := range t.Streams() {
		if rec.Proto != link_solicit_controller.ControlProtocolID {
			continue
		}
		end := 1
		if rec.Opener == ni {
			end = 0
		}
		c += rec.Ends[end].WritersBlocked()
	}
	return c
}

// runStep executes one step of a scripted history ("" = ok; anything else makes
// the scenario inconclusive).
func (t *TwoNode) runStep(st Step) string {
	n := t.Nodes[st.Node]
	switch st.Op {
	case OpAdd:
		if e := t.addDirective(st.Node, st.Dir); e != "" {
			return e
		}
		if !t.waitIdle([][2]int{{st.Node, st.Dir}}) {
			return "directive did not become idle (watchdog)"
		}
	case OpRelease:
		n.mu.Lock()
		cancel, wg := n.fakeCancel[st.Dir], n.fakeWG[st.Dir]
		var inst directive.Instance
		var ref directive.Reference
		for k, di := range n.disDir {
			if di == st.Dir {
				inst, ref = n.dis[k], n.dirRefs[k]
			}
		}
		n.mu.Unlock()
		switch {
		case cancel != nil:
			cancel()
			done := make(chan struct{})
			go func() { wg.Wait(); close(done) }()
			select {
			case <-done:
			case <-time.After(60 * time.Second):
				return "released direct request: Resolve did not return (watchdog)"
			}
		case inst != nil:
			if st.Via == 1 {
				ref.Release()
				inst.CloseIfUnreferenced(false)
			} else {
				inst.Close()
			}
		default:
			return fmt.Sprintf("release of request %d.%d that is not registered", st.Node, st.Dir)
		}
		n.Releases.Add(1)
	case OpStall:
		t.setStall(st.Node, true)
	case OpUnstall:
		t.setStall(st.Node, false)
	case OpAwaitStalled:
		if !Poll(60*time.Second, func() bool { return t.stalledWriters(st.Node) > 0 }) {
			return "no control-stream write of the stalled node arrived at the stall (watchdog)"
		}
		n.StalledSends.Add(1)
	}
	return ""
}
