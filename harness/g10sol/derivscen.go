package g10sol

import (
	"crypto/md5"
	"crypto/sha1"
	"crypto/sha256"
	"crypto/sha512"
	"encoding/base64"
	"encoding/binary"
	"encoding/hex"
	"math/rand/v2"
	"strings"

	"github.com/mr-tron/base58"
	"github.com/zeebo/blake3"
)

// Derivation maps an (id, context) pair to a DIFFERENT pair that an
// implementation could confuse with it when it normalises, caches, shortens or
// pre-hashes the inputs of the solicitation hash: the context replaced by a
// digest / an encoding / a truncation of itself, the id's digest mixed in, the
// id replaced by a digest of itself. Protocol ids stay valid UTF-8.
type Derivation struct {
	Name string
	F    func(p, c string) (string, string)
}

func b3(b string) string { s := blake3.Sum256([]byte(b)); return string(s[:]) }
func b3x64(b string) string {
	h := blake3.New()
	h.Write([]byte(b))
	out := make([]byte, 64)
	h.Digest().Read(out)
	return string(out)
}
func s256(b string) string { s := sha256.Sum256([]byte(b)); return string(s[:]) }
func s1(b string) string   { s := sha1.Sum([]byte(b)); return string(s[:]) }
func s512(b string) string { s := sha512.Sum512([]byte(b)); return string(s[:]) }
func m5(b string) string   { s := md5.Sum([]byte(b)); return string(s[:]) }
func hx(b string) string   { return hex.EncodeToString([]byte(b)) }
func trunc(b string, n int) string {
	if len(b) > n {
		return b[:n]
	}
	return b
}
func be64(n int) string {
	var b [8]byte
	binary.BigEndian.PutUint64(b[:], uint64(n))
	return string(b[:])
}

// Derivations is the table of derivation rules. A rule may return the pair
// unchanged for some inputs (e.g. truncating a short context): such results are
// dropped by the generators.
var Derivations = []Derivation{
	{"ctx=blake3-256(ctx)", func(p, c string) (string, string) { return p, b3(c) }},
	{"ctx=blake3-512(ctx)", func(p, c string) (string, string) { return p, b3x64(c) }},
	{"ctx=sha256(ctx)", func(p, c string) (string, string) { return p, s256(c) }},
	{"ctx=sha1(ctx)", func(p, c string) (string, string) { return p, s1(c) }},
	{"ctx=sha512(ctx)", func(p, c string) (string, string) { return p, s512(c) }},
	{"ctx=md5(ctx)", func(p, c string) (string, string) { return p, m5(c) }},
	{"ctx=blake3(blake3(ctx))", func(p, c string) (string, string) { return p, b3(b3(c)) }},
	{"ctx=hex(ctx)", func(p, c string) (string, string) { return p, hx(c) }},
	{"ctx=HEX(ctx)", func(p, c string) (string, string) { return p, strings.ToUpper(hx(c)) }},
	{"ctx=base58(ctx)", func(p, c string) (string, string) { return p, base58.Encode([]byte(c)) }},
	{"ctx=base64(ctx)", func(p, c string) (string, string) { return p, base64.StdEncoding.EncodeToString([]byte(c)) }},
	{"ctx=base64url(ctx)", func(p, c string) (string, string) { return p, base64.RawURLEncoding.EncodeToString([]byte(c)) }},
	{"ctx=hex(blake3(ctx))", func(p, c string) (string, string) { return p, hx(b3(c)) }},
	{"ctx=base58(sha256(ctx))", func(p, c string) (string, string) { return p, base58.Encode([]byte(s256(c))) }},
	{"ctx=ctx[:32]", func(p, c string) (string, string) { return p, trunc(c, 32) }},
	{"ctx=ctx[:64]", func(p, c string) (string, string) { return p, trunc(c, 64) }},
	{"ctx=ctx[:255]", func(p, c string) (string, string) { return p, trunc(c, 255) }},
	{"ctx=ctx[:256]", func(p, c string) (string, string) { return p, trunc(c, 256) }},
	{"ctx=ctx[:1024]", func(p, c string) (string, string) { return p, trunc(c, 1024) }},
	{"ctx=last-32(ctx)", func(p, c string) (string, string) {
		if len(c) > 32 {
			return p, c[len(c)-32:]
		}
		return p, c
	}},
	{"ctx=ctx+blake3(id)", func(p, c string) (string, string) { return p, c + b3(p) }},
	{"ctx=blake3(id)+ctx", func(p, c string) (string, string) { return p, b3(p) + c }},
	{"ctx=blake3(id+ctx)", func(p, c string) (string, string) { return p, b3(p + c) }},
	{"ctx=blake3(len(id)+id+ctx)", func(p, c string) (string, string) { return p, b3(be64(len(p)) + p + c) }},
	{"ctx=ctx[:32]+blake3(ctx[32:])", func(p, c string) (string, string) {
		if len(c) > 32 {
			return p, c[:32] + b3(c[32:])
		}
		return p, c
	}},
	{"ctx=len(ctx)+ctx", func(p, c string) (string, string) { return p, be64(len(c)) + c }},
	{"ctx=ctx+NUL", func(p, c string) (string, string) { return p, c + "\x00" }},
	{"id=hex(blake3(id))", func(p, c string) (string, string) { return hx(b3(p)), c }},
	{"id=base58(sha256(id))", func(p, c string) (string, string) { return base58.Encode([]byte(s256(p))), c }},
	{"id=id[:32]", func(p, c string) (string, string) { return trunc(p, 32), c }},
	{"id=id[:64]", func(p, c string) (string, string) { return trunc(p, 64), c }},
	{"id=id+hex(blake3(ctx))", func(p, c string) (string, string) { return p + "/" + hx(b3(c)), "" }},
	{"id=hex(blake3(id)),ctx=blake3(ctx)", func(p, c string) (string, string) { return hx(b3(p)), b3(c) }},
	{"id=lower(id)", func(p, c string) (string, string) { return strings.ToLower(p), c }},
}

var derivIDs = []string{"dex/sync", "test/echo", "Bifrost/PubSub/v1", "bifrost/stream/echo/with/a/rather/long/protocol/identifier/v2-0123456789abcdef", "p"}

// derivCtxLens: context lengths of the base pair; 33..4096 dominate (what a
// "longer than a hash / longer than a block" threshold separates from the rest).
var derivCtxLens = []int{33, 34, 40, 48, 63, 64, 65, 96, 100, 127, 128, 129, 255, 256, 257, 512, 1000, 1024, 1025, 2048, 4095, 4096, 32, 31, 16, 1}

func derivContext(rng *rand.Rand, l int) string {
	b := make([]byte, l)
	switch rng.IntN(3) {
	case 0: // text
		for i := range b {
			b[i] = byte('a' + rng.IntN(26))
		}
	case 1: // structured: a repeated short pattern
		pat := make([]byte, 1+rng.IntN(7))
		for i := range pat {
			pat[i] = byte(rng.UintN(256))
		}
		for i := range b {
			b[i] = pat[i%len(pat)]
		}
	default: // binary
		for i := range b {
			b[i] = byte(rng.UintN(256))
		}
	}
	return string(b)
}

// DerivedPairs returns, for a base pair, the pairs derived from it by every
// rule (results equal to the base or to an earlier result are dropped).
func DerivedPairs(p, c string) (names []string, pairs [][2]string) {
	seen := map[[2]string]bool{{p, c}: true}
	for _, d := range Derivations {
		q, e := d.F(p, c)
		if q == "" || seen[[2]string{q, e}] {
			continue
		}
		seen[[2]string{q, e}] = true
		names = append(names, d.Name)
		pairs = append(pairs, [2]string{q, e})
	}
	return
}

// GenDerivationScenario draws a scenario around a BASE request (id, context)
// on one node - context length from derivCtxLens (round-robin by k) - while the
// OTHER node solicits one to three pairs DERIVED from it (rules taken
// round-robin from Derivations starting at 3*k), which must all be refused; one
// scenario in three also puts a derived pair next to the base on the same node.
// A second, shared pair (long context too) is solicited by both nodes so that
// every scenario also has a match that must happen. kind: 0 static, 1 staged
// (links first; the base side; QUIESCENCE; the other side), 2 together (links
// first, everything back to back in PRNG order).
func GenDerivationScenario(rng *rand.Rand, kind, k int) *Scenario {
	kind %= 3
	s := &Scenario{Links: 1, SwapIDs: rng.IntN(2) == 0, Note: "derivation/" + [...]string{"static", "staged", "together"}[kind]}
	if rng.IntN(5) == 0 {
		s.Links = 2
	}
	x := rng.IntN(2)
	p := derivIDs[(k/len(derivCtxLens)+k)%len(derivIDs)]
	cl := derivCtxLens[k%len(derivCtxLens)]
	if k%7 == 6 {
		cl = 33 + rng.IntN(4064)
	}
	c := derivContext(rng, cl)
	s.Dirs[x] = append(s.Dirs[x], DirSpec{p, c, PeerNone, TptNone})
	nd := 1 + rng.IntN(3)
	at := 3 * k
	note := func(rule, dp, dc string) {
		s.Deriv = append(s.Deriv, DerivNote{Rule: rule, BaseID: p, BaseCtxHex: hx(trunc(c, 128)), BaseCtxLen: len(c),
			DerivID: dp, DerivCtxHex: hx(trunc(dc, 128)), DerivCtxLen: len(dc), base: pcPair{p, c}, deriv: pcPair{dp, dc}})
	}
	has := func(n int, q, e string) bool {
		for _, o := range s.Dirs[n] {
			if o.P == q && o.C == e {
				return true
			}
		}
		return false
	}
	for tries := 0; nd > 0 && tries < 2*len(Derivations); tries++ {
		d := Derivations[(at+tries)%len(Derivations)]
		q, e := d.F(p, c)
		if q == "" || (q == p && e == c) || has(0, q, e) || has(1, q, e) {
			continue
		}
		nd--
		n := 1 - x
		if rng.IntN(3) == 0 {
			// sibling on the base's own node; the other node then solicits the
			// derived form only (the base must stay unmatched) or the base only
			n = x
			if rng.IntN(2) == 0 {
				s.Dirs[1-x] = append(s.Dirs[1-x], DirSpec{q, e, PeerNone, TptNone})
			} else if !has(1-x, p, c) {
				s.Dirs[1-x] = append(s.Dirs[1-x], DirSpec{p, c, PeerNone, TptNone})
			}
		}
		pc, tc := PeerNone, TptNone
		if rng.IntN(6) == 0 {
			pc, tc = benignConstraint(rng, s.Links)
		}
		s.Dirs[n] = append(s.Dirs[n], DirSpec{q, e, pc, tc})
		note(d.Name, q, e)
	}
	// the shared pair: same id, another long context (and its own derived form on
	// one side only, now and then)
	c2 := derivContext(rng, 33+rng.IntN(200))
	for c2 == c {
		c2 = derivContext(rng, 33+rng.IntN(200))
	}
	s.Dirs[0] = append(s.Dirs[0], DirSpec{p, c2, PeerNone, TptNone})
	s.Dirs[1] = append(s.Dirs[1], DirSpec{p, c2, PeerNone, TptNone})
	if rng.IntN(3) == 0 {
		d := Derivations[rng.IntN(len(Derivations))]
		if q, e := d.F(p, c2); q != "" && !(q == p && e == c2) && !has(0, q, e) && !has(1, q, e) {
			n := rng.IntN(2)
			s.Dirs[n] = append(s.Dirs[n], DirSpec{q, e, PeerNone, TptNone})
			s.Deriv = append(s.Deriv, DerivNote{Rule: d.Name, BaseID: p, BaseCtxHex: hx(trunc(c2, 128)), BaseCtxLen: len(c2),
				DerivID: q, DerivCtxHex: hx(trunc(e, 128)), DerivCtxLen: len(e), base: pcPair{p, c2}, deriv: pcPair{q, e}})
		}
	}
	for n := 0; n < 2; n++ {
		rng.Shuffle(len(s.Dirs[n]), func(i, j int) { s.Dirs[n][i], s.Dirs[n][j] = s.Dirs[n][j], s.Dirs[n][i] })
	}
	if kind == 0 {
		return s
	}
	s.Dynamic = true
	var first, second [][2]int
	for di := range s.Dirs[x] {
		first = append(first, [2]int{x, di})
	}
	for di := range s.Dirs[1-x] {
		second = append(second, [2]int{1 - x, di})
	}
	if kind == 1 {
		if rng.IntN(2) == 0 {
			first, second = second, first
		}
		s.Stages = [][][2]int{first, second}
	} else {
		all := append(first, second...)
		rng.Shuffle(len(all), func(i, j int) { all[i], all[j] = all[j], all[i] })
		s.Stages = [][][2]int{all}
	}
	for _, st := range s.Stages {
		s.Order = append(s.Order, st...)
	}
	return s
}
