package g10sol

import (
	"context"
	"sync"
	"sync/atomic"

	"github.com/aperturerobotics/controllerbus/directive"
)

// FakeDI is a directive.Instance owned by the harness. It records every
// AddReference(weak) / Release, can gate non-weak AddReference calls (the
// caller is parked inside AddReference until the harness completes it) and
// exposes the registered ReferenceHandlers so the harness delivers
// value-added / -removed / -disposed callbacks itself.
type FakeDI struct {
	dir    directive.Directive
	ctx    context.Context
	cancel context.CancelFunc

	mu        sync.Mutex
	gate      bool
	pending   []*pendingAcq
	refs      []*FakeRef
	seq       int
	maxPend   int
	disposeCb []func()
	// preload: values the instance already carries; replayed to every handler
	// that attaches (synchronously inside AddReference, like controllerbus does).
	preload []directive.AttachedValue

	// Log of reference events in the order the fake saw them.
	log []string
}

type pendingAcq struct {
	ch chan struct{}
}

// FakeRef is a reference handed out by FakeDI.
type FakeRef struct {
	di      *FakeDI
	Seq     int
	Weak    bool
	Handler directive.ReferenceHandler
	rel     atomic.Int32
}

// Release releases the reference (counted; idempotent like the real one).
func (r *FakeRef) Release() {
	n := r.rel.Add(1)
	r.di.mu.Lock()
	if n == 1 {
		r.di.log = append(r.di.log, "release#"+itoa(r.Seq))
	} else {
		r.di.log = append(r.di.log, "re-release#"+itoa(r.Seq))
	}
	r.di.mu.Unlock()
}

// Releases returns how often Release was called.
func (r *FakeRef) Releases() int { return int(r.rel.Load()) }

func itoa(i int) string {
	if i == 0 {
		return "0"
	}
	var b [20]byte
	p := len(b)
	neg := i < 0
	if neg {
		i = -i
	}
	for i > 0 {
		p--
		b[p] = byte('0' + i%10)
		i /= 10
	}
	if neg {
		p--
		b[p] = '-'
	}
	return string(b[p:])
}

// NewFakeDI builds a fake instance carrying dir.
func NewFakeDI(dir directive.Directive) *FakeDI {
	ctx, cancel := context.WithCancel(context.Background())
	return &FakeDI{dir: dir, ctx: ctx, cancel: cancel}
}

// SetGate switches gating of non-weak AddReference calls. Switching it off
// completes all pending acquisitions.
func (d *FakeDI) SetGate(on bool) {
	d.mu.Lock()
	d.gate = on
	var p []*pendingAcq
	if !on {
		p = d.pending
		d.pending = nil
	}
	d.mu.Unlock()
	for _, x := range p {
		close(x.ch)
	}
}

// Pending returns the number of non-weak acquisitions parked in the gate.
func (d *FakeDI) Pending() int { d.mu.Lock(); defer d.mu.Unlock(); return len(d.pending) }

// MaxPending returns the largest number of simultaneously parked acquisitions.
func (d *FakeDI) MaxPending() int { d.mu.Lock(); defer d.mu.Unlock(); return d.maxPend }

// Complete lets the idx-th (0 = oldest) parked acquisition proceed. Returns
// false if there is none.
func (d *FakeDI) Complete(idx int) bool {
	d.mu.Lock()
	if idx < 0 || idx >= len(d.pending) {
		d.mu.Unlock()
		return false
	}
	p := d.pending[idx]
	d.pending = append(d.pending[:idx:idx], d.pending[idx+1:]...)
	d.mu.Unlock()
	close(p.ch)
	return true
}

// gateWait parks the caller until the harness completes the acquisition. The
// function name is looked for in goroutine dumps.
//
//go:noinline
func (d *FakeDI) gateWait(p *pendingAcq) { <-p.ch }

// AddReference implements directive.Instance.
func (d *FakeDI) AddReference(cb directive.ReferenceHandler, weak bool) directive.Reference {
	d.mu.Lock()
	if !weak && d.gate {
		p := &pendingAcq{ch: make(chan struct{})}
		d.pending = append(d.pending, p)
		if len(d.pending) > d.maxPend {
			d.maxPend = len(d.pending)
		}
		d.log = append(d.log, "acquire-enter")
		d.mu.Unlock()
		d.gateWait(p)
		d.mu.Lock()
	}
	d.seq++
	r := &FakeRef{di: d, Seq: d.seq, Weak: weak, Handler: cb}
	d.refs = append(d.refs, r)
	if weak {
		d.log = append(d.log, "weakref#"+itoa(r.Seq))
	} else {
		d.log = append(d.log, "acquired#"+itoa(r.Seq))
	}
	var replay []directive.AttachedValue
	if cb != nil && len(d.preload) != 0 {
		replay = append(replay, d.preload...)
		d.log = append(d.log, "replay-"+itoa(len(replay))+"-values#"+itoa(r.Seq))
	}
	d.mu.Unlock()
	// controllerbus (directiveInstance.addReferenceLocked) delivers a
	// HandleValueAdded for every value the instance already carries before
	// AddReference returns, with its mutex released.
	for _, v := range replay {
		cb.HandleValueAdded(d, v)
	}
	return r
}

// SetPreload sets the values the instance already carries: they are replayed
// to every handler passed to AddReference from then on.
func (d *FakeDI) SetPreload(vals ...directive.AttachedValue) {
	d.mu.Lock()
	d.preload = append([]directive.AttachedValue(nil), vals...)
	d.mu.Unlock()
}

// Refs returns all references handed out so far.
func (d *FakeDI) Refs() []*FakeRef {
	d.mu.Lock()
	defer d.mu.Unlock()
	return append([]*FakeRef(nil), d.refs...)
}

// Handlers returns the handlers of all (weak or not) references that have one.
func (d *FakeDI) Handlers() []directive.ReferenceHandler {
	var out []directive.ReferenceHandler
	for _, r := range d.Refs() {
		if r.Handler != nil {
			out = append(out, r.Handler)
		}
	}
	return out
}

// StrongOutstanding returns the number of non-weak references handed out and
// not yet released; StrongTotal the number ever handed out; DoubleReleases the
// number of references released more than once.
func (d *FakeDI) StrongOutstanding() (outstanding, total, doubleReleases int) {
	for _, r := range d.Refs() {
		if r.Weak {
			continue
		}
		total++
		switch n := r.Releases(); {
		case n == 0:
			outstanding++
		case n > 1:
			doubleReleases++
		}
	}
	return
}

// Log returns the reference events seen so far.
func (d *FakeDI) Log() []string { d.mu.Lock(); defer d.mu.Unlock(); return append([]string(nil), d.log...) }

// Note appends a harness event to the log (so witnesses show the interleaving).
func (d *FakeDI) Note(s string) { d.mu.Lock(); d.log = append(d.log, s); d.mu.Unlock() }

// GetContext implements directive.Instance.
func (d *FakeDI) GetContext() context.Context { return d.ctx }

// GetDirective implements directive.Instance.
func (d *FakeDI) GetDirective() directive.Directive { return d.dir }

// GetDirectiveIdent implements directive.Instance.
func (d *FakeDI) GetDirectiveIdent() string { return d.dir.GetName() }

// GetResolverErrors implements directive.Instance.
func (d *FakeDI) GetResolverErrors() []error { return nil }

// AddDisposeCallback implements directive.Instance.
func (d *FakeDI) AddDisposeCallback(cb func()) func() {
	d.mu.Lock()
	d.disposeCb = append(d.disposeCb, cb)
	d.mu.Unlock()
	return func() {}
}

// AddIdleCallback implements directive.Instance.
func (d *FakeDI) AddIdleCallback(cb directive.IdleCallback) func() { return func() {} }

// AddStateCallback implements directive.Instance.
func (d *FakeDI) AddStateCallback(cb directive.StateCallback) func() { return func() {} }

// CloseIfUnreferenced implements directive.Instance.
func (d *FakeDI) CloseIfUnreferenced(inclWeakRefs bool) bool { return false }

// Close implements directive.Instance.
func (d *FakeDI) Close() { d.cancel() }

var _ directive.Instance = (*FakeDI)(nil)
