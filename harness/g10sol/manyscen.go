package g10sol

import (
	"fmt"
	"math/rand/v2"
	"strings"
)

// MANY-SOLICITATIONS scenarios: one or both nodes hold a LARGE set of
// solicitations admitted on the same link - up to, and never above, the
// controller's documented default of 256 hashes per exchange - of which only a
// few have a counterpart on the other node. The exchange a node sends for such
// a set is the largest message the control stream ever carries; the property
// demands the shared pairs to be matched regardless of how many unrelated
// solicitations surround them.
//
// All pairs of a scenario are distinct, every request admits every link of the
// scenario (no or the right peer constraint, no transport constraint), and
// the number of requests per node never exceeds ManyLimit: the exchange is never
// truncated, so the ground truth is the plain one (same (id, context) on both
// sides <=> value).

// ManyLimit is the default maximum number of hashes per exchange (the
// controller's documented DefaultMaxHashes); the harness never puts more
// requests than this on one node.
const ManyLimit = 256

// FillPrefix is the protocol id prefix of filler solicitations.
const FillPrefix = "fill/"

// manyCounts are the per-node set sizes the generator cycles through first:
// the limit itself, the values just below it and the values around the point
// where 34 bytes per hash (32 + 2 bytes of framing) exceed 32 bytes * 256.
var manyCounts = []int{256, 249, 241, 255, 242, 240, 250, 248, 256, 243, 254, 247}

// IsMany reports whether the scenario is of the many-solicitations family.
func (s *Scenario) IsMany() bool { return strings.HasPrefix(s.Note, "many-solicitations/") }

// GenManyScenario builds scenario k of the family. kind (k%3): 0 static (every
// request registered before the link appears: ONE exchange carries the whole
// set), 1 staged (link first; the fillers; process-wide QUIESCENCE; then the
// shared pairs - the set was already advertised in full before the pair that
// must match exists), 2 together (link first, everything back to back, no
// quiescence; the shared pairs at PRNG positions among the fillers).
func GenManyScenario(rng *rand.Rand, k int) *Scenario {
	kind := k % 3
	s := &Scenario{Links: 1, SwapIDs: rng.IntN(2) == 0,
		Note: "many-solicitations/" + [...]string{"static", "staged", "together"}[kind]}
	if k%8 == 7 {
		s.Links = 2
	}
	bulk := (k / 3) % 2
	// set size of the bulk node
	var n int
	switch {
	case k < len(manyCounts):
		n = manyCounts[k]
	case rng.IntN(3) == 0:
		n = 200 + rng.IntN(57) // 200..256
	default:
		n = 236 + rng.IntN(21) // 236..256
	}
	// the other node: a handful of requests, or a large set as well
	m := 4 + rng.IntN(8)
	if k%3 == 0 && k > 0 || rng.IntN(5) == 0 {
		m = 200 + rng.IntN(57)
		if rng.IntN(2) == 0 {
			m = 241 + rng.IntN(16)
		}
	}
	nShared := 1 + rng.IntN(3)
	if nShared > m-2 {
		nShared = 1
	}
	size := [2]int{}
	size[bulk], size[1-bulk] = n, m
	tag := fmt.Sprintf("%d-%x", k, rng.Uint32())
	peerOf := func() int {
		if rng.IntN(4) == 0 {
			return PeerRight
		}
		return PeerNone
	}
	var fillers, shared [2][]int
	for ni := 0; ni < 2; ni++ {
		// fillers: same protocol id on both nodes, contexts that differ between the
		// nodes (near misses: equal id, context differing in the node letter only)
		for i := 0; i < size[ni]-nShared; i++ {
			p := FillPrefix + "a"
			if i%5 == 4 {
				p = FillPrefix + "b/" + tag
			}
			s.Dirs[ni] = append(s.Dirs[ni], DirSpec{p, fmt.Sprintf("%s-n%d-%d", tag, ni, i), peerOf(), TptNone})
			fillers[ni] = append(fillers[ni], len(s.Dirs[ni])-1)
		}
	}
	for j := 0; j < nShared; j++ {
		p, c := "demo/common", fmt.Sprintf("ctx-%s-%d", tag, j)
		switch j {
		case 1: // looks like a filler
			p, c = FillPrefix+"a", fmt.Sprintf("%s-shared-%d", tag, j)
		case 2:
			p, c = "test/echo", ""
		}
		for ni := 0; ni < 2; ni++ {
			s.Dirs[ni] = append(s.Dirs[ni], DirSpec{p, c, peerOf(), TptNone})
			shared[ni] = append(shared[ni], len(s.Dirs[ni])-1)
		}
	}
	if kind == 0 {
		return s
	}
	s.Dynamic = true
	pairs := func(ni int, l []int) (out [][2]int) {
		for _, di := range l {
			out = append(out, [2]int{ni, di})
		}
		return
	}
	// Registering 250 requests one by one on live links costs 250 exchanges of up
	// to 250 hashes each; most histories therefore register a PRNG majority of the
	// fillers BEFORE the links (Scenario.Pre) and only the last 0..40 of each node
	// on the live link (the set grows through the boundary values there); every
	// fourth history from the seventh on (thorough tier) is fully dynamic.
	if !(k >= 6 && k%4 == 1) {
		for ni := 0; ni < 2; ni++ {
			keep := rng.IntN(41)
			if kind == 1 && rng.IntN(2) == 0 {
				keep = 0
			}
			keep = min(keep, len(fillers[ni]))
			cut := len(fillers[ni]) - keep
			s.Pre = append(s.Pre, pairs(ni, fillers[ni][:cut])...)
			fillers[ni] = fillers[ni][cut:]
		}
	}
	if kind == 1 {
		// (rest of the) fillers of both nodes (node order PRNG), quiescence, shared
		// pairs (bulk node first or last)
		first := rng.IntN(2)
		st0 := append(pairs(first, fillers[first]), pairs(1-first, fillers[1-first])...)
		sf := rng.IntN(2)
		st1 := append(pairs(sf, shared[sf]), pairs(1-sf, shared[1-sf])...)
		s.Stages = [][][2]int{st0, st1}
		s.Order = append(append([][2]int{}, st0...), st1...)
		return s
	}
	// together: per node the shared pairs are inserted at PRNG positions among the
	// fillers; the two nodes' lists are registered one node after the other or
	// alternating in blocks
	var lists [2][][2]int
	for ni := 0; ni < 2; ni++ {
		l := pairs(ni, fillers[ni])
		for _, di := range shared[ni] {
			at := rng.IntN(len(l) + 1)
			if rng.IntN(2) == 0 {
				at = len(l) // after everything else: the set is at its largest
			}
			l = append(l[:at], append([][2]int{{ni, di}}, l[at:]...)...)
		}
		lists[ni] = l
	}
	if rng.IntN(2) == 0 {
		first := rng.IntN(2)
		s.Order = append(append([][2]int{}, lists[first]...), lists[1-first]...)
	} else {
		blk := 8 + rng.IntN(40)
		for len(lists[0])+len(lists[1]) > 0 {
			for ni := 0; ni < 2; ni++ {
				c := min(blk, len(lists[ni]))
				s.Order = append(s.Order, lists[ni][:c]...)
				lists[ni] = lists[ni][c:]
			}
		}
	}
	return s
}

// manySizes returns the number of requests per node admitted on link 1.
func (s *Scenario) manySizes() (a, b int) {
	cnt := func(ni int) (c int) {
		for _, d := range s.Dirs[ni] {
			if s.Admits(d, 0) {
				c++
			}
		}
		return
	}
	return cnt(0), cnt(1)
}
