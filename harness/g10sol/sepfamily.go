package g10sol

import (
	"math/rand/v2"
	"strings"
)

// Separators are the bytes / short strings with which an implementation might
// join (protocol id, context) into ONE key (map key, cache key, log-derived
// id, ...). The empty separator is the plain concatenation.
var Separators = []string{"/", ":", "|", "\x00", " ", "-", ".", ",", ";", "_", "#", "=", "@", "+", "\n", "\t", "//", "::", "\x00\x00", ""}

var sepWords = []string{"dex", "x", "y", "v1", "bucket", "a", "b", "test", "echo", "sync", "0", "k", "pubsub", "t"}

// SepFamily draws a family of (protocol id, context) pairs that all coincide
// when id and context are joined with sep: parts w0..wk are joined with sep and
// the id / context boundary is put at every part boundary:
// (w0, w1+sep+w2), (w0+sep+w1, w2), ... . All members are pairwise different
// (their ids have different lengths); with a non-empty separator their plain
// concatenations differ as well. Now and then a middle part is empty (the pair
// then reads (a+sep, c) / (a, sep+c)).
func SepFamily(rng *rand.Rand, sep string) []pcPair {
	k := 3 + rng.IntN(2) // 3 or 4 parts -> 2 or 3 members
	parts := make([]string, k)
	for i := range parts {
		parts[i] = sepWords[rng.IntN(len(sepWords))]
		if i > 0 && i < k-1 && rng.IntN(6) == 0 && sep != "" {
			parts[i] = ""
		}
	}
	var fam []pcPair
	for i := 1; i < k; i++ {
		fam = append(fam, pcPair{strings.Join(parts[:i], sep), strings.Join(parts[i:], sep)})
	}
	return fam
}

// JoinCollision reports a separator under which the two DIFFERENT pairs have
// the same joined key (harness ground truth used to name the input class of a
// witness and to count non-trivial scenarios; never part of a verdict).
func JoinCollision(ap, ac, bp, bc string) (sep string, ok bool) {
	if ap == bp && ac == bc {
		return "", false
	}
	for _, s := range Separators {
		if ap+s+ac == bp+s+bc {
			return s, true
		}
	}
	return "", false
}

// GenSeparatorScenario draws a HISTORY scenario around two or three FAMILIES
// (each under its own separator, taken round-robin from Separators starting at
// sepAt) of two (sometimes three) different requests on ONE node whose
// (id, context) coincide when joined with that separator, while the other node
// solicits exactly one member of every family (sometimes two). kind selects
// the history:
//
//	0: static   - all requests are registered before the links appear
//	1: staged   - links first; stage 1: the first sibling of every family and the
//	              "early" remote requests; QUIESCENCE; stage 2: the second
//	              siblings; QUIESCENCE; stage 3: third siblings and the "late"
//	              remote requests (the whole local history is in place when
//	              the remote solicitation arrives)
//	2: together - links first; everything is registered back to back in one
//	              stage, siblings adjacent, remote requests in PRNG positions
//
// Both registration orders of the siblings occur (the family is shuffled), and
// the remote node solicits the first or a later registered sibling. Every
// request is judged by its own (id, context, constraints) as in every other
// scenario.
func GenSeparatorScenario(rng *rand.Rand, kind, sepAt int) *Scenario {
	kind %= 3
	s := &Scenario{Links: 1, SwapIDs: rng.IntN(2) == 0, Note: "separator-family/" + [...]string{"static", "staged", "together"}[kind]}
	if rng.IntN(4) == 0 {
		s.Links = 2
	}
	x := rng.IntN(2) // the node that holds the siblings
	has := func(n int, m pcPair) bool {
		for _, o := range s.Dirs[n] {
			if o.P == m.p && o.C == m.c {
				return true
			}
		}
		return false
	}
	var stage [3][][2]int // staged: registration stage of every request
	var flat [][2]int     // together: siblings adjacent
	nf := 2 + rng.IntN(2)
	for f := 0; f < nf; f++ {
		sep := Separators[(sepAt+f)%len(Separators)]
		fam := SepFamily(rng, sep)
		rng.Shuffle(len(fam), func(i, j int) { fam[i], fam[j] = fam[j], fam[i] })
		if len(fam) > 2 && rng.IntN(3) != 0 {
			fam = fam[:2]
		}
		clash := false
		for _, m := range fam {
			if has(0, m) || has(1, m) {
				clash = true
			}
		}
		if clash {
			continue
		}
		for k, m := range fam {
			pc, tc := PeerNone, TptNone
			if rng.IntN(5) == 0 {
				pc, tc = benignConstraint(rng, s.Links)
			}
			s.Dirs[x] = append(s.Dirs[x], DirSpec{m.p, m.c, pc, tc})
			w := [2]int{x, len(s.Dirs[x]) - 1}
			stage[k] = append(stage[k], w)
			flat = append(flat, w)
		}
		// what the other node solicits: exactly one sibling (3 of 4), or two of them
		pick := rng.IntN(len(fam))
		remote := []pcPair{fam[pick]}
		if rng.IntN(4) == 0 {
			remote = append(remote, fam[(pick+1)%len(fam)])
		}
		for _, m := range remote {
			s.Dirs[1-x] = append(s.Dirs[1-x], DirSpec{m.p, m.c, PeerNone, TptNone})
			w := [2]int{1 - x, len(s.Dirs[1-x]) - 1}
			if rng.IntN(3) == 0 {
				stage[0] = append(stage[0], w) // early
			} else {
				stage[2] = append(stage[2], w) // late
			}
			at := rng.IntN(len(flat) + 1)
			flat = append(flat[:at], append([][2]int{w}, flat[at:]...)...)
		}
	}
	switch kind {
	case 0:
		return s
	case 1:
		s.Dynamic = true
		rng.Shuffle(len(stage[0]), func(i, j int) { stage[0][i], stage[0][j] = stage[0][j], stage[0][i] })
		for _, st := range stage {
			if len(st) > 0 {
				s.Stages = append(s.Stages, st)
			}
		}
	default:
		s.Dynamic = true
		s.Stages = [][][2]int{flat}
	}
	for _, st := range s.Stages {
		s.Order = append(s.Order, st...)
	}
	return s
}

// joinSiblings counts pairs of requests on one node whose (id, context)
// coincide under a NON-EMPTY separator, and those coinciding in the plain
// concatenation.
func (s *Scenario) joinSiblings() (sepJoined, plain int) {
	for n := 0; n < 2; n++ {
		for i, a := range s.Dirs[n] {
			for _, b := range s.Dirs[n][i+1:] {
				if sp, ok := JoinCollision(a.P, a.C, b.P, b.C); ok {
					if sp == "" {
						plain++
					} else {
						sepJoined++
					}
				}
			}
		}
	}
	return
}
