package g10sol

import (
	"bytes"
	"context"
	"encoding/binary"
	"fmt"
	"runtime"
	"sync"
	"sync/atomic"
	"time"

	"github.com/aperturerobotics/bifrost/link"
	link_solicit "github.com/aperturerobotics/bifrost/link/solicit"
	link_solicit_controller "github.com/aperturerobotics/bifrost/link/solicit/controller"
	"github.com/aperturerobotics/bifrost/peer"
	"github.com/aperturerobotics/bifrost/protocol"
	"github.com/aperturerobotics/controllerbus/bus"
	"github.com/aperturerobotics/controllerbus/bus/inmem"
	"github.com/aperturerobotics/controllerbus/directive"
	cdc "github.com/aperturerobotics/controllerbus/directive/controller"
)

// LiveCtl is ONE real solicitation controller on a controller bus with a
// harness link whose remote side is the harness itself: the solicitation
// control stream of the link is live (the controller's control loop and reader
// run on it) and the harness reads and writes raw bytes at the remote end - a
// hostile peer. Used by C40 (SolicitationExchange on a live control stream).
type LiveCtl struct {
	Node       *Node
	Link       *FakeMountedLink
	LocalLower bool
	// Ctl is the harness (remote) end of the control stream, NodeCtl the
	// controller's end.
	Ctl, NodeCtl *FakeStream
	// FirstExchange is the body of the first frame the controller sent (nil when
	// it has no solicitation for the link and therefore sends nothing).
	FirstExchange []byte

	ctx    context.Context
	cancel context.CancelFunc
	refs   []directive.Reference

	mu     sync.Mutex
	opened []*StreamRec // streams opened by the controller through the link

	// Values counts SolicitMountedStream values delivered to the local requests.
	Values atomic.Int64
}

type liveValueHandler struct{ lc *LiveCtl }

func (h *liveValueHandler) HandleValueAdded(_ directive.Instance, v directive.AttachedValue) {
	if _, ok := v.GetValue().(link_solicit.SolicitMountedStream); ok {
		h.lc.Values.Add(1)
	}
}
func (h *liveValueHandler) HandleValueRemoved(directive.Instance, directive.AttachedValue) {}
func (h *liveValueHandler) HandleInstanceDisposed(directive.Instance)                      {}

// StartLiveCtl builds the node (peer id = the lower / higher of the two ids),
// registers one SolicitProtocol request per (id, context) of sols, brings the
// link up and establishes the control stream: the lower peer id opens it (the
// harness receives the remote end from the link's stream factory), for the
// higher one the harness opens it and dispatches it through the bus like a
// transport controller. With at least one request it waits for the controller's
// first exchange. A non-empty error string = setup failed (inconclusive).
func StartLiveCtl(localLower bool, idA, idB peer.ID, sols [][2]string) (*LiveCtl, string) {
	lo, hi := idA, idB
	if lo > hi {
		lo, hi = hi, lo
	}
	local, remote := hi, lo
	if localLower {
		local, remote = lo, hi
	}
	ctx, cancel := context.WithCancel(context.Background())
	lc := &LiveCtl{LocalLower: localLower, ctx: ctx, cancel: cancel}
	le := quietLogger()
	n := &Node{PeerID: local}
	lc.Node = n
	n.Bus = inmem.NewBus(cdc.NewController(ctx, le))
	sol, err := link_solicit_controller.NewController(le, &link_solicit_controller.Config{})
	if err != nil {
		cancel()
		return nil, "NewController: " + err.Error()
	}
	n.Sol = sol
	lc.Link = &FakeMountedLink{UUID: 7, TptUUID: 1010, RemoteTptUUID: 2010, Local: local, Remote: remote, Open: lc.open}
	n.Links = []*FakeMountedLink{lc.Link}
	if _, err := n.Bus.AddController(ctx, sol, nil); err != nil {
		cancel()
		return nil, "AddController(solicit): " + err.Error()
	}
	if _, err := n.Bus.AddController(ctx, &linkCtrl{n: n}, nil); err != nil {
		cancel()
		return nil, "AddController(links): " + err.Error()
	}
	idle := make([]atomic.Bool, len(sols))
	for i, pc := range sols {
		var cb []byte
		if pc[1] != "" {
			cb = []byte(pc[1])
		}
		inst, ref, err := n.Bus.AddDirective(link_solicit.NewSolicitProtocol(protocol.ID(pc[0]), cb, "", 0), &liveValueHandler{lc})
		if err != nil {
			lc.Stop()
			return nil, "AddDirective: " + err.Error()
		}
		lc.refs = append(lc.refs, ref)
		inst.AddIdleCallback(func(isIdle bool, _ []error) { idle[i].Store(isIdle) })
	}
	if !Poll(60*time.Second, func() bool {
		for i := range idle {
			if !idle[i].Load() {
				return false
			}
		}
		return true
	}) {
		lc.Stop()
		return nil, "requests did not become idle (watchdog)"
	}
	_, ref, err := n.Bus.AddDirective(link.NewEstablishLinkWithPeer("", remote), nil)
	if err != nil {
		lc.Stop()
		return nil, "AddDirective(EstablishLinkWithPeer): " + err.Error()
	}
	lc.refs = append(lc.refs, ref)
	if localLower {
		if !Poll(60*time.Second, func() bool {
			lc.mu.Lock()
			defer lc.mu.Unlock()
			for _, rec := range lc.opened {
				if rec.Proto == link_solicit_controller.ControlProtocolID {
					lc.NodeCtl, lc.Ctl = rec.Ends[0], rec.Ends[1]
					return true
				}
			}
			return false
		}) {
			lc.Stop()
			return nil, "the controller did not open the control stream (watchdog)"
		}
	} else {
		h, e := lc.Dispatch(link_solicit_controller.ControlProtocolID)
		if e != "" {
			lc.Stop()
			return nil, e
		}
		lc.Ctl, lc.NodeCtl = h.Ends[0], h.Ends[1]
	}
	if len(sols) > 0 {
		var body []byte
		if !Poll(60*time.Second, func() bool {
			b, ok := lc.ReadFrame()
			if ok {
				body = b
			}
			return ok
		}) {
			lc.Stop()
			return nil, "the controller did not send its first exchange (watchdog)"
		}
		lc.FirstExchange = body
		if body == nil {
			lc.FirstExchange = []byte{}
		}
	}
	return lc, ""
}

// open is the link's stream factory: the controller opens a stream, the harness
// keeps the remote end.
func (lc *LiveCtl) open(ctx context.Context, l *FakeMountedLink, pid protocol.ID) (link.MountedStream, error) {
	if err := lc.ctx.Err(); err != nil {
		return nil, err
	}
	id := streamSeq.Add(1)
	a, b := NewFakeStreamPair(id)
	rec := &StreamRec{ID: id, Opener: 0, Proto: pid, Ends: [2]*FakeStream{a, b}}
	rec.MS[0] = &FakeMountedStream{Strm: a, Proto: pid, Lnk: l, Peer: l.Remote}
	lc.mu.Lock()
	lc.opened = append(lc.opened, rec)
	lc.mu.Unlock()
	return rec.MS[0], nil
}

// Dispatch opens a stream with protocol id pid FROM the harness side and hands
// the node's end to the handler the node's bus resolves for it (what the
// transport controller does with an incoming stream). Ends[0] is the harness
// end.
func (lc *LiveCtl) Dispatch(pid protocol.ID) (*StreamRec, string) {
	id := streamSeq.Add(1)
	a, b := NewFakeStreamPair(id)
	rec := &StreamRec{ID: id, Opener: 1, Proto: pid, Ends: [2]*FakeStream{a, b}}
	ms := &FakeMountedStream{Strm: b, Proto: pid, Lnk: lc.Link, Peer: lc.Link.Remote}
	rec.MS[1] = ms
	dctx, dcancel := context.WithTimeout(lc.ctx, 60*time.Second)
	defer dcancel()
	val, _, ref, err := bus.ExecOneOff(dctx, lc.Node.Bus, link.NewHandleMountedStream(pid, lc.Node.PeerID, lc.Link.Remote), nil, nil)
	if err != nil {
		return nil, "HandleMountedStream(" + string(pid) + "): " + err.Error()
	}
	defer ref.Release()
	h, ok := val.GetValue().(link.MountedStreamHandler)
	if !ok {
		return nil, "HandleMountedStream value is not a MountedStreamHandler"
	}
	if err := h.HandleMountedStream(lc.ctx, ms); err != nil {
		return nil, "HandleMountedStream: " + err.Error()
	}
	return rec, ""
}

// ReadFrame takes one complete LE32-framed message sent by the controller from
// the harness end of the control stream (ok = false: none is complete yet).
func (lc *LiveCtl) ReadFrame() ([]byte, bool) {
	h := lc.Ctl.rd
	h.mu.Lock()
	defer h.mu.Unlock()
	if len(h.buf) < 4 {
		return nil, false
	}
	l := int(binary.LittleEndian.Uint32(h.buf))
	if len(h.buf) < 4+l {
		return nil, false
	}
	body := append([]byte(nil), h.buf[4:4+l]...)
	h.buf = h.buf[4+l:]
	return body, true
}

// Opened returns the streams the controller opened through the link so far.
func (lc *LiveCtl) Opened() []*StreamRec {
	lc.mu.Lock()
	defer lc.mu.Unlock()
	return append([]*StreamRec(nil), lc.opened...)
}

// SolicitedOpened counts the solicited ("solicit:<hash>") streams among them.
func (lc *LiveCtl) SolicitedOpened() int {
	c := 0
	for _, rec := range lc.Opened() {
		if rec.Proto != link_solicit_controller.ControlProtocolID {
			c++
		}
	}
	return c
}

// counters is the activity vector of the node (settling).
func (lc *LiveCtl) counters() [4]int64 {
	lc.mu.Lock()
	no := int64(len(lc.opened))
	lc.mu.Unlock()
	return [4]int64{no, lc.NodeCtl.BytesWritten(), int64(lc.NodeCtl.Closes()), lc.Values.Load()}
}

// Settle waits until the controller has consumed everything the harness wrote
// on the control stream (or closed its end) and every goroutine of the process
// other than the caller is parked, with an unchanged activity vector, in two
// consecutive looks. buf is the scratch buffer for the goroutine dumps (the
// looks do not allocate, so an allocation measurement around Settle sees the
// controller's allocations). false = watchdog expired (inconclusive).
func (lc *LiveCtl) Settle(buf []byte, self int64, ignore []int64) bool {
	var last [4]int64
	quiet := 0
	return Poll(60*time.Second, func() bool {
		if lc.NodeCtl.Unread() != 0 && lc.NodeCtl.Closes() == 0 {
			quiet = 0
			return false
		}
		c := lc.counters()
		if c != last {
			last, quiet = c, 0
			return false
		}
		if !AllParkedInto(buf, self, ignore) || lc.counters() != c {
			quiet = 0
			return false
		}
		quiet++
		return quiet >= 2
	})
}

// Stop tears the node down.
func (lc *LiveCtl) Stop() {
	for _, r := range lc.refs {
		r.Release()
	}
	lc.cancel()
	if lc.Ctl != nil {
		lc.Ctl.rd.close()
		lc.Ctl.wr.close()
	}
	for _, rec := range lc.Opened() {
		rec.Ends[0].rd.close()
		rec.Ends[0].wr.close()
	}
}

// Drain waits (bounded, not a verdict) until the goroutines of stopped nodes
// are gone or parked.
func Drain(buf []byte, self int64, ignore []int64) {
	Poll(5*time.Second, func() bool { return AllParkedInto(buf, self, ignore) })
}

// UnparkedGoroutines returns the ids of the goroutines (other than the caller)
// that are not parked right now: taken once before a phase starts, it is the
// list of foreign long-lived goroutines (signal handlers, library daemons) that
// AllParkedInto has to ignore.
func UnparkedGoroutines() []int64 {
	self := CurGoroutineID()
	var out []int64
	for _, g := range Goroutines() {
		if g.ID != self && !g.Parked() {
			out = append(out, g.ID)
		}
	}
	return out
}

var goroutineHdr = []byte("goroutine ")

// AllParkedInto reports whether every goroutine other than self is parked
// and than the ids in ignore (same state list as G.Parked). The dump is written into buf and parsed in
// place: no allocation. A dump that does not fit into buf counts as "not
// parked".
func AllParkedInto(buf []byte, self int64, ignore []int64) bool {
	n := runtime.Stack(buf, true)
	if n >= len(buf) {
		return false
	}
	txt := buf[:n]
	for len(txt) > 0 {
		var blk []byte
		if i := bytes.Index(txt, []byte("\n\n")); i >= 0 {
			blk, txt = txt[:i], txt[i+2:]
		} else {
			blk, txt = txt, nil
		}
		for len(blk) > 0 && blk[0] == '\n' {
			blk = blk[1:]
		}
		if !bytes.HasPrefix(blk, goroutineHdr) {
			continue
		}
		rest := blk[len(goroutineHdr):]
		var id int64
		k := 0
		for k < len(rest) && rest[k] >= '0' && rest[k] <= '9' {
			id = id*10 + int64(rest[k]-'0')
			k++
		}
		if k == 0 || k+2 >= len(rest) || rest[k] != ' ' || rest[k+1] != '[' {
			return false
		}
		if id == self {
			continue
		}
		skip := false
		for _, ig := range ignore {
			if ig == id {
				skip = true
			}
		}
		if skip {
			continue
		}
		st := rest[k+2:]
		e := 0
		for e < len(st) && st[e] != ']' && st[e] != ',' {
			e++
		}
		switch string(st[:e]) {
		case "chan receive", "chan send", "select", "sync.Mutex.Lock", "sync.RWMutex.Lock", "sync.RWMutex.RLock",
			"sync.Cond.Wait", "semacquire", "sync.WaitGroup.Wait", "chan receive (nil chan)", "chan send (nil chan)",
			"select (no cases)":
		default:
			return false
		}
	}
	return true
}

// FrameLE32 frames a message body like stream/packet.Session does.
func FrameLE32(body []byte) []byte {
	out := make([]byte, 4+len(body))
	binary.LittleEndian.PutUint32(out, uint32(len(body)))
	copy(out[4:], body)
	return out
}

// ExchangeBody hand-encodes a SolicitationExchange with the given hashes
// (field 1, length-delimited), whatever their lengths.
func ExchangeBody(hashes [][]byte) []byte {
	var out []byte
	var v [binary.MaxVarintLen64]byte
	for _, h := range hashes {
		out = append(out, 0x0a)
		out = append(out, v[:binary.PutUvarint(v[:], uint64(len(h)))]...)
		out = append(out, h...)
	}
	return out
}

// ParseExchangeBody is the harness' own decoder of a well-formed exchange body
// (used on what the controller itself sent).
func ParseExchangeBody(b []byte) ([][]byte, error) {
	var out [][]byte
	for len(b) > 0 {
		if b[0] != 0x0a {
			return nil, fmt.Errorf("unexpected tag %#x", b[0])
		}
		l, n := binary.Uvarint(b[1:])
		if n <= 0 || uint64(len(b)-1-n) < l {
			return nil, fmt.Errorf("bad length")
		}
		out = append(out, append([]byte(nil), b[1+n:1+n+int(l)]...))
		b = b[1+n+int(l):]
	}
	return out, nil
}
