// Package g10sol holds the shared harness pieces of group g10 (link
// solicitation C30-C32, hold-open C33): goroutine-state based quiescence
// detection, a fake directive.Instance, fake mounted links / streams and the
// two-node solicitation harness.
package g10sol

import (
	"runtime"
	"strconv"
	"strings"
	"sync"
	"time"
)

// G is one goroutine of a runtime.Stack(all) snapshot.
type G struct {
	ID     int64
	State  string // text between the brackets, e.g. "chan receive", "sync.Mutex.Lock", "runnable"
	Parent int64  // "created by ... in goroutine N" (0 if unknown)
	Stack  string // full text of the block
}

var stackBufPool = sync.Pool{New: func() any { b := make([]byte, 1<<16); return &b }}

// parseHeader parses "goroutine N [state]:".
func parseHeader(blk string) (id int64, state string, ok bool) {
	const pfx = "goroutine "
	if !strings.HasPrefix(blk, pfx) {
		return 0, "", false
	}
	rest := blk[len(pfx):]
	sp := strings.IndexByte(rest, ' ')
	if sp <= 0 {
		return 0, "", false
	}
	id, err := strconv.ParseInt(rest[:sp], 10, 64)
	if err != nil {
		return 0, "", false
	}
	rest = rest[sp+1:]
	if len(rest) == 0 || rest[0] != '[' {
		return 0, "", false
	}
	cl := strings.IndexByte(rest, ']')
	if cl < 0 {
		return 0, "", false
	}
	return id, rest[1:cl], true
}

// Goroutines returns a snapshot of all user goroutines.
func Goroutines() []G {
	bp := stackBufPool.Get().(*[]byte)
	buf := *bp
	var n int
	for {
		n = runtime.Stack(buf, true)
		if n < len(buf) {
			break
		}
		buf = make([]byte, 2*len(buf))
	}
	txt := string(buf[:n])
	*bp = buf
	stackBufPool.Put(bp)
	var out []G
	for len(txt) > 0 {
		var blk string
		if i := strings.Index(txt, "\n\n"); i >= 0 {
			blk, txt = txt[:i], txt[i+2:]
		} else {
			blk, txt = txt, ""
		}
		blk = strings.TrimLeft(blk, "\n")
		id, st, ok := parseHeader(blk)
		if !ok {
			continue
		}
		g := G{ID: id, State: st, Stack: blk}
		if i := strings.LastIndex(blk, "\ncreated by "); i >= 0 {
			ln := blk[i+1:]
			if e := strings.IndexByte(ln, '\n'); e >= 0 {
				ln = ln[:e]
			}
			const mark = " in goroutine "
			if k := strings.LastIndex(ln, mark); k >= 0 {
				g.Parent, _ = strconv.ParseInt(ln[k+len(mark):], 10, 64)
			}
		}
		out = append(out, g)
	}
	return out
}

// CurGoroutineID returns the id of the calling goroutine.
func CurGoroutineID() int64 {
	var b [64]byte
	n := runtime.Stack(b[:], false)
	id, _, ok := parseHeader(string(b[:n]))
	if !ok {
		return -1
	}
	return id
}

// BaseState strips the ", N minutes" / ", locked to thread" suffixes.
func (g G) BaseState() string {
	if i := strings.IndexByte(g.State, ','); i >= 0 {
		return g.State[:i]
	}
	return g.State
}

// Parked reports whether the goroutine is blocked (not running / runnable /
// in a syscall) at the time of the snapshot.
func (g G) Parked() bool {
	switch g.BaseState() {
	case "chan receive", "chan send", "select", "sync.Mutex.Lock", "sync.RWMutex.Lock", "sync.RWMutex.RLock",
		"sync.Cond.Wait", "semacquire", "sync.WaitGroup.Wait", "chan receive (nil chan)", "chan send (nil chan)",
		"select (no cases)":
		return true
	}
	return false
}

// IDSet is a set of goroutine ids.
type IDSet map[int64]struct{}

// SnapshotIDs returns the ids of all currently existing goroutines.
func SnapshotIDs() IDSet {
	s := IDSet{}
	for _, g := range Goroutines() {
		s[g.ID] = struct{}{}
	}
	return s
}

// Poll calls cond until it returns true, yielding between calls (a short
// sleep is only a polling interval, never a verdict). Returns false when the
// watchdog expired (the caller must treat that as inconclusive).
func Poll(watchdog time.Duration, cond func() bool) bool {
	start := time.Now()
	for i := 0; ; i++ {
		if cond() {
			return true
		}
		if i < 20 {
			runtime.Gosched()
		} else if i < 200 {
			time.Sleep(20 * time.Microsecond)
		} else {
			time.Sleep(500 * time.Microsecond)
		}
		if i%64 == 63 && time.Since(start) > watchdog {
			return false
		}
	}
}
