package g10sol

import (
	"context"
	"errors"
	"io"
	"sync"
	"sync/atomic"
	"time"

	"github.com/aperturerobotics/bifrost/link"
	"github.com/aperturerobotics/bifrost/peer"
	"github.com/aperturerobotics/bifrost/protocol"
	"github.com/aperturerobotics/bifrost/stream"
)

// halfPipe is one direction of an in-memory, unbounded, ordered byte pipe.
type halfPipe struct {
	mu     sync.Mutex
	cond   *sync.Cond
	buf    []byte
	closed bool // writer side closed (EOF after drain) or reader closed
	total  atomic.Int64
}

func newHalfPipe() *halfPipe {
	h := &halfPipe{}
	h.cond = sync.NewCond(&h.mu)
	return h
}

func (h *halfPipe) write(b []byte) (int, error) {
	h.mu.Lock()
	defer h.mu.Unlock()
	if h.closed {
		return 0, io.ErrClosedPipe
	}
	h.buf = append(h.buf, b...)
	h.total.Add(int64(len(b)))
	h.cond.Broadcast()
	return len(b), nil
}

func (h *halfPipe) read(b []byte) (int, error) {
	h.mu.Lock()
	defer h.mu.Unlock()
	for len(h.buf) == 0 && !h.closed {
		h.cond.Wait()
	}
	if len(h.buf) == 0 {
		return 0, io.EOF
	}
	n := copy(b, h.buf)
	h.buf = h.buf[n:]
	return n, nil
}

func (h *halfPipe) close() {
	h.mu.Lock()
	h.closed = true
	h.cond.Broadcast()
	h.mu.Unlock()
}

// FakeStream is one end of an in-memory duplex stream (stream.Stream). The
// harness identifies the physical stream by ID (both ends share it) and
// counts Close calls per end.
type FakeStream struct {
	ID     int64
	End    int // 0 = opener end, 1 = acceptor end
	rd, wr *halfPipe
	closes atomic.Int32
	// OnClose, if set, is called on every Close call.
	OnClose func(s *FakeStream)
}

// NewFakeStreamPair builds both ends of a stream.
func NewFakeStreamPair(id int64) (*FakeStream, *FakeStream) {
	a, b := newHalfPipe(), newHalfPipe()
	return &FakeStream{ID: id, End: 0, rd: a, wr: b}, &FakeStream{ID: id, End: 1, rd: b, wr: a}
}

// Read implements stream.Stream.
func (s *FakeStream) Read(b []byte) (int, error) { return s.rd.read(b) }

// Write implements stream.Stream.
func (s *FakeStream) Write(b []byte) (int, error) { return s.wr.write(b) }

// SetReadDeadline implements stream.Stream (no deadlines in the harness).
func (s *FakeStream) SetReadDeadline(t time.Time) error { return nil }

// SetWriteDeadline implements stream.Stream.
func (s *FakeStream) SetWriteDeadline(t time.Time) error { return nil }

// SetDeadline implements stream.Stream.
func (s *FakeStream) SetDeadline(t time.Time) error { return nil }

// Close implements stream.Stream.
func (s *FakeStream) Close() error {
	s.closes.Add(1)
	s.rd.close()
	s.wr.close()
	if s.OnClose != nil {
		s.OnClose(s)
	}
	return nil
}

// Closes returns how often Close was called on this end.
func (s *FakeStream) Closes() int { return int(s.closes.Load()) }

// BytesWritten returns the number of bytes written at this end.
func (s *FakeStream) BytesWritten() int64 { return s.wr.total.Load() }

var _ stream.Stream = (*FakeStream)(nil)

// FakeMountedStream implements link.MountedStream around a FakeStream.
type FakeMountedStream struct {
	Strm  *FakeStream
	Proto protocol.ID
	Lnk   link.MountedLink
	Peer  peer.ID
}

// GetStream implements link.MountedStream.
func (m *FakeMountedStream) GetStream() stream.Stream { return m.Strm }

// GetProtocolID implements link.MountedStream.
func (m *FakeMountedStream) GetProtocolID() protocol.ID { return m.Proto }

// GetOpenOpts implements link.MountedStream.
func (m *FakeMountedStream) GetOpenOpts() stream.OpenOpts { return stream.OpenOpts{} }

// GetPeerID implements link.MountedStream.
func (m *FakeMountedStream) GetPeerID() peer.ID { return m.Peer }

// GetLink implements link.MountedStream.
func (m *FakeMountedStream) GetLink() link.MountedLink { return m.Lnk }

var _ link.MountedStream = (*FakeMountedStream)(nil)

// FakeMountedLink implements link.MountedLink with chosen ids and peers. Open
// is the stream factory (nil: OpenMountedStream fails).
type FakeMountedLink struct {
	UUID, TptUUID, RemoteTptUUID uint64
	Local, Remote                peer.ID
	Open                         func(ctx context.Context, l *FakeMountedLink, pid protocol.ID) (link.MountedStream, error)
}

// GetLinkUUID implements link.MountedLink.
func (l *FakeMountedLink) GetLinkUUID() uint64 { return l.UUID }

// GetTransportUUID implements link.MountedLink.
func (l *FakeMountedLink) GetTransportUUID() uint64 { return l.TptUUID }

// GetRemoteTransportUUID implements link.MountedLink.
func (l *FakeMountedLink) GetRemoteTransportUUID() uint64 { return l.RemoteTptUUID }

// GetLocalPeer implements link.MountedLink.
func (l *FakeMountedLink) GetLocalPeer() peer.ID { return l.Local }

// GetRemotePeer implements link.MountedLink.
func (l *FakeMountedLink) GetRemotePeer() peer.ID { return l.Remote }

// OpenMountedStream implements link.MountedLink.
func (l *FakeMountedLink) OpenMountedStream(ctx context.Context, pid protocol.ID, opts stream.OpenOpts) (link.MountedStream, error) {
	if l.Open == nil {
		return nil, errors.New("fake link: no stream factory")
	}
	return l.Open(ctx, l, pid)
}

var _ link.MountedLink = (*FakeMountedLink)(nil)
