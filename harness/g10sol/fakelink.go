package g10sol

import (
	"context"
	"errors"
	"io"
	"runtime"
	"sync"
	"sync/atomic"
	"time"

	"github.com/aperturerobotics/bifrost/link"
	"github.com/aperturerobotics/bifrost/peer"
	"github.com/aperturerobotics/bifrost/protocol"
	"github.com/aperturerobotics/bifrost/stream"
)

// halfPipe is one direction of an in-memory, unbounded, ordered byte pipe.
type halfPipe struct {
	mu     sync.Mutex
	cond   *sync.Cond
	buf    []byte
	closed bool // writer side closed (EOF after drain) or reader closed
	total  atomic.Int64
	// stalled: writers wait (back-pressure) until the stall is lifted or the
	// pipe is closed; blocked counts the writers currently waiting.
	stalled bool
	blocked atomic.Int32
}

func newHalfPipe() *halfPipe {
	h := &halfPipe{}
	h.cond = sync.NewCond(&h.mu)
	return h
}

func (h *halfPipe) write(b []byte) (int, error) {
	h.mu.Lock()
	defer h.mu.Unlock()
	if h.stalled && !h.closed {
		h.blocked.Add(1)
		for h.stalled && !h.closed {
			h.cond.Wait()
		}
		h.blocked.Add(-1)
	}
	if h.closed {
		return 0, io.ErrClosedPipe
	}
	h.buf = append(h.buf, b...)
	h.total.Add(int64(len(b)))
	h.cond.Broadcast()
	return len(b), nil
}

func (h *halfPipe) read(b []byte) (int, error) {
	h.mu.Lock()
	defer h.mu.Unlock()
	for len(h.buf) == 0 && !h.closed {
		h.cond.Wait()
	}
	if len(h.buf) == 0 {
		return 0, io.EOF
	}
	n := copy(b, h.buf)
	h.buf = h.buf[n:]
	return n, nil
}

// stall makes writers wait (on) or lets them continue (off).
func (h *halfPipe) stall(on bool) {
	h.mu.Lock()
	h.stalled = on
	h.cond.Broadcast()
	h.mu.Unlock()
}

// buffered returns the number of written bytes not yet read.
func (h *halfPipe) buffered() int {
	h.mu.Lock()
	defer h.mu.Unlock()
	return len(h.buf)
}

func (h *halfPipe) close() {
	h.mu.Lock()
	h.closed = true
	h.cond.Broadcast()
	h.mu.Unlock()
}

// FakeStream is one end of an in-memory duplex stream (stream.Stream). The
// harness identifies the physical stream by ID (both ends share it) and
// counts Close calls per end.
type FakeStream struct {
	ID     int64
	End    int // 0 = opener end, 1 = acceptor end
	rd, wr *halfPipe
	peer   *FakeStream
	closes atomic.Int32
	// OnClose, if set, is called on every Close call.
	OnClose func(s *FakeStream)
	// Fault selects what Close reports / how it behaves (Close* constants; set
	// before the stream is handed out, never changed afterwards). Whatever Close
	// returns, the end IS closed by the call (like a real stream that reports
	// "already reset" from Close).
	Fault int
	// CloseGate, if non-nil, parks the FIRST Close call of this end inside Close
	// (after it was counted, before the pipes are closed) until the channel is
	// closed; CloseEntered (buffered) is signalled when that call is parked.
	CloseGate    chan struct{}
	CloseEntered chan struct{}
}

// Behaviour of FakeStream.Close.
const (
	CloseOK            = 0 // returns nil
	CloseErrAlways     = 1 // every Close call returns an error
	CloseErrFirst      = 2 // the first Close call returns an error, later ones nil
	CloseErrRemoteGone = 3 // returns an error iff the other end was closed before
	CloseSlow          = 4 // yields the processor a number of times inside Close, returns nil
	CloseSlowErr       = 5 // the same, returns an error
	CloseErrLater      = 6 // the first call returns nil, later ones an error (idempotent-with-error)
	NumCloseFaults     = 7
)

// CloseFaultNames names the Close behaviours (evidence / witnesses).
var CloseFaultNames = [...]string{"close-ok", "close-error-always", "close-error-first-call", "close-error-after-remote-close", "close-slow", "close-slow-error", "close-error-on-repeated-calls"}

// ErrFakeClose is what a faulty FakeStream returns from Close.
var ErrFakeClose = errors.New("fake stream: close failed (stream already reset)")

// NewFakeStreamPair builds both ends of a stream.
func NewFakeStreamPair(id int64) (*FakeStream, *FakeStream) {
	a, b := newHalfPipe(), newHalfPipe()
	x, y := &FakeStream{ID: id, End: 0, rd: a, wr: b}, &FakeStream{ID: id, End: 1, rd: b, wr: a}
	x.peer, y.peer = y, x
	return x, y
}

// Read implements stream.Stream.
func (s *FakeStream) Read(b []byte) (int, error) { return s.rd.read(b) }

// Write implements stream.Stream.
func (s *FakeStream) Write(b []byte) (int, error) { return s.wr.write(b) }

// SetReadDeadline implements stream.Stream (no deadlines in the harness).
func (s *FakeStream) SetReadDeadline(t time.Time) error { return nil }

// SetWriteDeadline implements stream.Stream.
func (s *FakeStream) SetWriteDeadline(t time.Time) error { return nil }

// SetDeadline implements stream.Stream.
func (s *FakeStream) SetDeadline(t time.Time) error { return nil }

// Close implements stream.Stream.
func (s *FakeStream) Close() error {
	n := s.closes.Add(1)
	remoteGone := s.peer != nil && s.peer.closes.Load() > 0
	if n == 1 && s.CloseGate != nil {
		if s.CloseEntered != nil {
			select {
			case s.CloseEntered <- struct{}{}:
			default:
			}
		}
		<-s.CloseGate
	}
	if s.Fault == CloseSlow || s.Fault == CloseSlowErr {
		for i := 0; i < 8; i++ {
			runtime.Gosched()
		}
	}
	s.rd.close()
	s.wr.close()
	if s.OnClose != nil {
		s.OnClose(s)
	}
	switch s.Fault {
	case CloseErrAlways, CloseSlowErr:
		return ErrFakeClose
	case CloseErrFirst:
		if n == 1 {
			return ErrFakeClose
		}
	case CloseErrLater:
		if n > 1 {
			return ErrFakeClose
		}
	case CloseErrRemoteGone:
		if remoteGone {
			return ErrFakeClose
		}
	}
	return nil
}

// StallWrites makes Write calls at this end wait (back-pressure) until the
// stall is lifted or the stream is closed.
func (s *FakeStream) StallWrites(on bool) { s.wr.stall(on) }

// WritersBlocked returns the number of Write calls at this end that are
// currently parked by a stall.
func (s *FakeStream) WritersBlocked() int { return int(s.wr.blocked.Load()) }

// Unread returns the number of bytes written by the other end that this end
// has not read yet.
func (s *FakeStream) Unread() int { return s.rd.buffered() }

// Unconsumed returns the number of bytes written at this end that the other
// end has not read yet.
func (s *FakeStream) Unconsumed() int { return s.wr.buffered() }

// Closes returns how often Close was called on this end.
func (s *FakeStream) Closes() int { return int(s.closes.Load()) }

// BytesWritten returns the number of bytes written at this end.
func (s *FakeStream) BytesWritten() int64 { return s.wr.total.Load() }

var _ stream.Stream = (*FakeStream)(nil)

// FakeMountedStream implements link.MountedStream around a FakeStream.
type FakeMountedStream struct {
	Strm  *FakeStream
	Proto protocol.ID
	Lnk   link.MountedLink
	Peer  peer.ID
}

// GetStream implements link.MountedStream.
func (m *FakeMountedStream) GetStream() stream.Stream { return m.Strm }

// GetProtocolID implements link.MountedStream.
func (m *FakeMountedStream) GetProtocolID() protocol.ID { return m.Proto }

// GetOpenOpts implements link.MountedStream.
func (m *FakeMountedStream) GetOpenOpts() stream.OpenOpts { return stream.OpenOpts{} }

// GetPeerID implements link.MountedStream.
func (m *FakeMountedStream) GetPeerID() peer.ID { return m.Peer }

// GetLink implements link.MountedStream.
func (m *FakeMountedStream) GetLink() link.MountedLink { return m.Lnk }

var _ link.MountedStream = (*FakeMountedStream)(nil)

// FakeMountedLink implements link.MountedLink with chosen ids and peers. Open
// is the stream factory (nil: OpenMountedStream fails).
type FakeMountedLink struct {
	UUID, TptUUID, RemoteTptUUID uint64
	Local, Remote                peer.ID
	Open                         func(ctx context.Context, l *FakeMountedLink, pid protocol.ID) (link.MountedStream, error)
}

// GetLinkUUID implements link.MountedLink.
func (l *FakeMountedLink) GetLinkUUID() uint64 { return l.UUID }

// GetTransportUUID implements link.MountedLink.
func (l *FakeMountedLink) GetTransportUUID() uint64 { return l.TptUUID }

// GetRemoteTransportUUID implements link.MountedLink.
func (l *FakeMountedLink) GetRemoteTransportUUID() uint64 { return l.RemoteTptUUID }

// GetLocalPeer implements link.MountedLink.
func (l *FakeMountedLink) GetLocalPeer() peer.ID { return l.Local }

// GetRemotePeer implements link.MountedLink.
func (l *FakeMountedLink) GetRemotePeer() peer.ID { return l.Remote }

// OpenMountedStream implements link.MountedLink.
func (l *FakeMountedLink) OpenMountedStream(ctx context.Context, pid protocol.ID, opts stream.OpenOpts) (link.MountedStream, error) {
	if l.Open == nil {
		return nil, errors.New("fake link: no stream factory")
	}
	return l.Open(ctx, l, pid)
}

var _ link.MountedLink = (*FakeMountedLink)(nil)
