package g10sol

import (
	"context"
	"fmt"
	"hash/fnv"
	"io"
	"strconv"
	"strings"
	"sync"
	"sync/atomic"
	"time"

	"github.com/aperturerobotics/bifrost/link"
	link_solicit "github.com/aperturerobotics/bifrost/link/solicit"
	link_solicit_controller "github.com/aperturerobotics/bifrost/link/solicit/controller"
	"github.com/aperturerobotics/bifrost/peer"
	"github.com/aperturerobotics/bifrost/protocol"
	"github.com/aperturerobotics/controllerbus/bus"
	"github.com/aperturerobotics/controllerbus/bus/inmem"
	"github.com/aperturerobotics/controllerbus/controller"
	"github.com/aperturerobotics/controllerbus/directive"
	cdc "github.com/aperturerobotics/controllerbus/directive/controller"
	"github.com/blang/semver/v4"
	"github.com/sirupsen/logrus"
)

// Constraint kinds of a directive spec.
const (
	PeerNone  = 0
	PeerRight = 1 // the other node's peer id
	PeerWrong = 2 // a third identity

	TptNone  = 0
	TptLink1 = 1 // local transport id of link 1
	TptLink2 = 2 // local transport id of link 2 (wrong when there is only one link)
	TptWrong = 3 // no such transport
)

// DirSpec is one SolicitProtocol directive of a scenario.
type DirSpec struct {
	P    string `json:"protocol_id"`
	C    string `json:"context"`
	Peer int    `json:"peer_constraint"`
	Tpt  int    `json:"transport_constraint"`
}

func (d DirSpec) String() string {
	return fmt.Sprintf("(%q,%q,peer=%s,tpt=%s)", d.P, d.C, [...]string{"any", "right", "wrong"}[d.Peer], [...]string{"any", "link1", "link2", "wrong"}[d.Tpt])
}

// Scenario is a static two-node solicitation scenario: all directives are
// registered (idle) before the links appear.
type Scenario struct {
	Links   int          `json:"links"`
	Dirs    [2][]DirSpec `json:"directives"`
	SwapIDs bool         `json:"swap_ids"` // which node has the lower peer id
	// Dynamic: the links exist first, then the directives are registered one
	// at a time in Order ((node, directive index) pairs).
	Dynamic bool     `json:"dynamic,omitempty"`
	Order   [][2]int `json:"order,omitempty"`
	// Stages (dynamic scenarios only; optional) cuts Order into consecutive
	// stages: the harness waits for process-wide quiescence after each stage, so
	// everything the controllers do for the directives of stage k (advertising,
	// matching, opening streams) has happened before a directive of stage k+1
	// exists. Order is always the concatenation of the stages.
	Stages [][][2]int `json:"stages,omitempty"`
	// Pre (dynamic scenarios only; optional): requests registered BEFORE the links
	// appear, like the requests of a static scenario; they are not part of Order.
	// Only requests without a counterpart on the other node are put here (fillers):
	// the 'if' direction is never demanded for them.
	Pre [][2]int `json:"registered_before_links,omitempty"`
	// Note names the generator family (evidence / witnesses only).
	Note string `json:"note,omitempty"`
	// Modes (optional, parallel to Dirs) says how the harness-side consumer /
	// resolver handler of a request behaves (Mode* constants; default ModeRecord).
	Modes [2][]int `json:"modes,omitempty"`
	// Script (optional; implies Dynamic) is a history of registrations, RELEASES,
	// control-stream stalls and quiescence points executed after the links are up
	// (see Step). Order lists its "add" steps; Stages is not used.
	Script []Step `json:"script,omitempty"`
	// StreamFault (CloseErr* / CloseSlow* constants of FakeStream) is the Close
	// behaviour of both ends of every SOLICITED stream of the scenario.
	StreamFault int `json:"solicited_stream_close_fault,omitempty"`
	// Deriv documents how the (id, context) pairs of the scenario are derived
	// from each other (derivation families; witnesses and classification only).
	Deriv []DerivNote `json:"derivations,omitempty"`
}

// Behaviour of the harness side of one request.
const (
	// ModeRecord: the value handler only records the value; the harness accepts
	// / closes it later (after quiescence).
	ModeRecord = 0
	// ModeAcceptNow: the value handler accepts the stream synchronously, i.e.
	// while the controller is still inside the AddValue call that delivers it.
	ModeAcceptNow = 1
	// ModeAcceptCloseSiblings: accepts synchronously and then closes the bus
	// instances (directive.Instance.Close) of every OTHER local request with the
	// same (protocol id, context): their resolvers are cancelled by the real
	// controllerbus, so a later AddValue of the same match returns ok=false.
	ModeAcceptCloseSiblings = 2
	// ModeAcceptReleaseSiblings: the same through Reference.Release +
	// Instance.CloseIfUnreferenced.
	ModeAcceptReleaseSiblings = 3
	// ModeGoneAtStream: a bus request whose instance the harness closes at the
	// moment the first solicited stream of its node is about to be handed to the
	// controller (released while the remote solicitation arrives).
	ModeGoneAtStream = 4
	// ModeGoneAtStreamAsync: the same from a free-running goroutine.
	ModeGoneAtStreamAsync = 5
	// ModeFakeReject: the request is registered with the controller directly
	// (Controller.HandleDirective + Resolver.Resolve) with a harness
	// directive.ResolverHandler whose AddValue rejects every value (ok=false:
	// what controllerbus answers for a cancelled resolver or a reached hard cap).
	ModeFakeReject = 6
	// ModeFakeCap1: harness ResolverHandler that takes the first value and
	// rejects all later ones (hard cap of one value).
	ModeFakeCap1 = 7
	// ModeDirect: registered with the controller directly like the ModeFake*
	// requests, with a harness ResolverHandler that takes every value. The
	// harness owns the resolver's context, so a RELEASE of such a request is
	// complete (the controller has forgotten the solicitation) when Resolve has
	// returned: a time-free condition.
	ModeDirect = 8
)

var modeNames = [...]string{"record", "accept-now", "accept+close-siblings", "accept+release-siblings", "gone-at-stream", "gone-at-stream-async", "fake-reject", "fake-cap1", "direct"}

// Mode returns the behaviour of request di of node n.
func (s *Scenario) Mode(n, di int) int {
	if di < len(s.Modes[n]) {
		return s.Modes[n][di]
	}
	return ModeRecord
}

func isFakeMode(m int) bool { return m == ModeFakeReject || m == ModeFakeCap1 || m == ModeDirect }

// stageList returns the registration stages of a dynamic scenario.
func (s *Scenario) stageList() [][][2]int {
	if len(s.Script) > 0 {
		var out [][][2]int
		for _, seg := range s.segments() {
			var l [][2]int
			for _, st := range seg {
				if st.Op == OpAdd {
					l = append(l, [2]int{st.Node, st.Dir})
				}
			}
			out = append(out, l)
		}
		return out
	}
	if len(s.Stages) > 0 {
		return s.Stages
	}
	return [][][2]int{s.Order}
}

// Sig returns a canonical string of the scenario.
func (s *Scenario) Sig() string {
	var b strings.Builder
	fmt.Fprintf(&b, "links=%d swap=%v", s.Links, s.SwapIDs)
	if s.Dynamic {
		fmt.Fprintf(&b, " dynamic%v", s.Order)
		if len(s.Pre) > 0 {
			fmt.Fprintf(&b, " pre-registered=%d", len(s.Pre))
		}
		if len(s.Stages) > 0 {
			fmt.Fprintf(&b, " stages%v", s.Stages)
		}
		if len(s.Script) > 0 {
			b.WriteString(" script[")
			for _, st := range s.Script {
				b.WriteString(st.String())
				b.WriteByte(' ')
			}
			b.WriteString("]")
		}
	}
	if s.StreamFault != 0 {
		b.WriteString(" streams:" + CloseFaultNames[s.StreamFault])
	}
	for n := 0; n < 2; n++ {
		fmt.Fprintf(&b, " N%d:", n)
		if s.IsMany() {
			// filler requests of a many-solicitations scenario are summarised
			nf, h := 0, fnv.New64a()
			for _, d := range s.Dirs[n] {
				if strings.HasPrefix(d.P, FillPrefix) {
					nf++
					h.Write([]byte(d.String()))
				}
			}
			fmt.Fprintf(&b, "[%d fillers #%x]", nf, h.Sum64())
		}
		for di, d := range s.Dirs[n] {
			if s.IsMany() && strings.HasPrefix(d.P, FillPrefix) {
				continue
			}
			b.WriteString(d.String())
			if m := s.Mode(n, di); m != ModeRecord {
				b.WriteString("<" + modeNames[m] + ">")
			}
		}
	}
	return b.String()
}

// Admits is the harness ground truth: does the directive admit link li (0-based)?
func (s *Scenario) Admits(d DirSpec, li int) bool {
	if d.Peer == PeerWrong {
		return false
	}
	switch d.Tpt {
	case TptNone:
		return true
	case TptLink1:
		return li == 0
	case TptLink2:
		return li == 1
	}
	return false
}

// Expected reports whether directive di of node n must receive a value for
// link li: it admits the link and the other node has a directive with the
// same (protocol id, context) admitting the link.
func (s *Scenario) Expected(n, di, li int) bool {
	d := s.Dirs[n][di]
	if li >= s.Links || !s.Admits(d, li) {
		return false
	}
	for _, o := range s.Dirs[1-n] {
		if o.P == d.P && o.C == d.C && s.Admits(o, li) {
			return true
		}
	}
	return false
}

// MustHave is Expected restricted to what the property text guarantees in a
// dynamic scenario: only the first registered directive of node n with this
// (protocol id, context) that admits the link is certainly registered when
// the (single) stream for the hash is opened; later ones may or may not get
// the value. In static scenarios MustHave = Expected.
func (s *Scenario) MustHave(n, di, li int) bool {
	if !s.Expected(n, di, li) {
		return false
	}
	if !s.Dynamic {
		return true
	}
	if len(s.Script) > 0 {
		return s.scriptMustHave(n, di, li)
	}
	d := s.Dirs[n][di]
	for _, w := range s.Order {
		if w[0] != n {
			continue
		}
		o := s.Dirs[n][w[1]]
		if o.P == d.P && o.C == d.C && s.Admits(o, li) {
			return w[1] == di
		}
	}
	return false
}

// RecvValue is a value delivered to a harness reference handler.
type RecvValue struct {
	Dir int
	Val link_solicit.SolicitMountedStream
	// EarlyMS is the stream an accepting value handler (ModeAccept*) obtained
	// synchronously inside the delivering AddValue call (nil: none / not that
	// mode); EarlyCloses is the Close count of that stream end at that moment.
	EarlyMS     link.MountedStream
	EarlyCloses int
}

// StreamRec describes one physical stream opened over a harness link.
type StreamRec struct {
	ID     int64
	Link   int // 0-based link index
	Opener int // node that opened it
	Proto  protocol.ID
	Ends   [2]*FakeStream        // [0] opener end, [1] acceptor end
	MS     [2]*FakeMountedStream // same order
}

// Node is one side of the two-node harness.
type Node struct {
	Idx    int
	PeerID peer.ID
	Bus    bus.Bus
	Sol    *link_solicit_controller.Controller
	Links  []*FakeMountedLink

	mu     sync.Mutex
	values []RecvValue
	nvals  atomic.Int64
	dis    []directive.Instance
	disDir []int       // scenario directive index of dis[k]
	merged map[int]int // request index -> earlier request whose bus directive it was merged onto
	refs   []directive.Reference
	idle   []atomic.Bool
	// dirRefs[k] is the reference of dis[k]
	dirRefs []directive.Reference
	// goneOnce: ModeGoneAtStream* requests are closed once
	goneOnce sync.Once
	// direct requests (ModeFake* / ModeDirect): the harness owns the resolver
	// contexts; fakeWG[di] is done when every Resolve call of the request returned
	fakeCancel map[int]context.CancelFunc
	fakeWG     map[int]*sync.WaitGroup
	// stallCtl: writes of this node on control streams are stalled
	stallCtl atomic.Bool

	// Rejected counts AddValue calls answered ok=false by harness resolver
	// handlers; SiblingCloses the bus instances closed by accepting handlers;
	// GoneCloses those closed at stream arrival.
	Rejected, SiblingCloses, GoneCloses atomic.Int64
	// Releases counts executed OpRelease steps, StalledSends the OpAwaitStalled
	// steps that saw the node's control loop parked in a stalled write.
	Releases, StalledSends atomic.Int64
}

// MergedWith reports the earlier request onto whose bus directive request di
// was de-duplicated by the bus (ok = false: it has a directive of its own).
func (n *Node) MergedWith(di int) (int, bool) {
	n.mu.Lock()
	defer n.mu.Unlock()
	o, ok := n.merged[di]
	return o, ok
}

// Values returns the values received so far (arrival order).
func (n *Node) Values() []RecvValue {
	n.mu.Lock()
	defer n.mu.Unlock()
	return append([]RecvValue(nil), n.values...)
}

// TwoNode is a running scenario.
type TwoNode struct {
	Scen   *Scenario
	Nodes  [2]*Node
	Wrong  peer.ID
	ctx    context.Context
	cancel context.CancelFunc

	mu       sync.Mutex
	streams  []*StreamRec
	nstreams atomic.Int64
	disp     atomic.Int64 // incoming-stream dispatches started
	dispDone atomic.Int64 // ... that reached a handler (or failed)
	Problems []string
}

// Streams returns the physical streams opened so far.
func (t *TwoNode) Streams() []*StreamRec {
	t.mu.Lock()
	defer t.mu.Unlock()
	return append([]*StreamRec(nil), t.streams...)
}

// Counters is the harness-side activity vector used for quiescence.
func (t *TwoNode) Counters() string {
	var b strings.Builder
	fmt.Fprintf(&b, "s%d d%d/%d v%d/%d", t.nstreams.Load(), t.disp.Load(), t.dispDone.Load(), t.Nodes[0].nvals.Load(), t.Nodes[1].nvals.Load())
	for _, s := range t.Streams() {
		fmt.Fprintf(&b, " %d:%d/%d", s.ID, s.Ends[0].BytesWritten(), s.Ends[1].BytesWritten())
	}
	return b.String()
}

// linkCtrl resolves EstablishLinkWithPeer with the harness links.
type linkCtrl struct {
	n *Node
}

func (c *linkCtrl) GetControllerInfo() *controller.Info {
	return controller.NewInfo("verif/g10/links", semver.MustParse("0.0.1"), "harness link controller")
}
func (c *linkCtrl) Execute(ctx context.Context) error { return nil }
func (c *linkCtrl) Close() error                      { return nil }
func (c *linkCtrl) HandleDirective(ctx context.Context, di directive.Instance) ([]directive.Resolver, error) {
	d, ok := di.GetDirective().(link.EstablishLinkWithPeer)
	if !ok {
		return nil, nil
	}
	var vals []link.MountedLink
	for _, l := range c.n.Links {
		if l.Remote == d.EstablishLinkTargetPeerId() {
			vals = append(vals, l)
		}
	}
	if len(vals) == 0 {
		return nil, nil
	}
	return directive.Resolvers(directive.NewValueResolver(vals)), nil
}

// valueHandler records values delivered to one harness directive reference.
type valueHandler struct {
	t   *TwoNode
	n   *Node
	dir int
}

func (h *valueHandler) HandleValueAdded(_ directive.Instance, v directive.AttachedValue) {
	sms, ok := v.GetValue().(link_solicit.SolicitMountedStream)
	if !ok {
		return
	}
	h.t.deliver(h.n, h.dir, sms)
}

// deliver is the consumer of request dir of node n: records the value and, in
// the accepting modes, accepts it right away (the controller is still inside
// the AddValue call) and then lets the sibling requests go away.
func (t *TwoNode) deliver(n *Node, dir int, sms link_solicit.SolicitMountedStream) {
	rv := RecvValue{Dir: dir, Val: sms}
	mode := t.Scen.Mode(n.Idx, dir)
	switch mode {
	case ModeAcceptNow, ModeAcceptCloseSiblings, ModeAcceptReleaseSiblings:
		if ms, _, err := sms.AcceptMountedStream(); err == nil && ms != nil {
			rv.EarlyMS = ms
			if f, ok := ms.(*FakeMountedStream); ok && f != nil {
				rv.EarlyCloses = f.Strm.Closes()
			}
		}
	}
	n.mu.Lock()
	n.values = append(n.values, rv)
	n.mu.Unlock()
	n.nvals.Add(1)
	if rv.EarlyMS != nil && (mode == ModeAcceptCloseSiblings || mode == ModeAcceptReleaseSiblings) {
		t.closeSiblings(n, dir, mode == ModeAcceptReleaseSiblings)
	}
}

// closeSiblings makes every other bus request of node n with the same
// (protocol id, context) as request dir go away (real controllerbus calls).
func (t *TwoNode) closeSiblings(n *Node, dir int, viaRelease bool) {
	spec := t.Scen.Dirs[n.Idx][dir]
	var own directive.Instance
	var insts []directive.Instance
	var refs []directive.Reference
	n.mu.Lock()
	for k, di := range n.disDir {
		if di == dir {
			own = n.dis[k]
		}
	}
	for k, di := range n.disDir {
		o := t.Scen.Dirs[n.Idx][di]
		if di == dir || n.dis[k] == own || o.P != spec.P || o.C != spec.C {
			continue
		}
		insts = append(insts, n.dis[k])
		refs = append(refs, n.dirRefs[k])
	}
	n.mu.Unlock()
	for k, inst := range insts {
		if viaRelease {
			refs[k].Release()
			inst.CloseIfUnreferenced(false)
		} else {
			inst.Close()
		}
		n.SiblingCloses.Add(1)
	}
}

// goneAtStream closes the ModeGoneAtStream* requests of node ni; called when a
// solicited stream is about to be handed to that node's controller.
func (t *TwoNode) goneAtStream(ni int, pid protocol.ID) {
	if !strings.HasPrefix(string(pid), link_solicit_controller.SolicitStreamPrefix) {
		return
	}
	n := t.Nodes[ni]
	n.goneOnce.Do(func() {
		n.mu.Lock()
		var insts []directive.Instance
		var async []bool
		for k, di := range n.disDir {
			switch t.Scen.Mode(ni, di) {
			case ModeGoneAtStream:
				insts, async = append(insts, n.dis[k]), append(async, false)
			case ModeGoneAtStreamAsync:
				insts, async = append(insts, n.dis[k]), append(async, true)
			}
		}
		n.mu.Unlock()
		for k, inst := range insts {
			n.GoneCloses.Add(1)
			if async[k] {
				go inst.Close()
			} else {
				inst.Close()
			}
		}
	})
}

// fakeRH is a harness directive.ResolverHandler for requests registered with
// the controller directly (ModeFake*). It follows the documented contract:
// AddValue may reject a value (ok=false).
type fakeRH struct {
	t   *TwoNode
	n   *Node
	dir int

	mu   sync.Mutex
	seq  uint32
	vals map[uint32]directive.Value
}

func (h *fakeRH) AddValue(v directive.Value) (uint32, bool) {
	mode := h.t.Scen.Mode(h.n.Idx, h.dir)
	h.mu.Lock()
	if mode == ModeFakeReject || (mode == ModeFakeCap1 && len(h.vals) >= 1) {
		h.mu.Unlock()
		h.n.Rejected.Add(1)
		return 0, false
	}
	h.seq++
	id := h.seq
	h.vals[id] = v
	h.mu.Unlock()
	if sms, ok := v.(link_solicit.SolicitMountedStream); ok {
		h.t.deliver(h.n, h.dir, sms)
	}
	return id, true
}

func (h *fakeRH) RemoveValue(id uint32) (directive.Value, bool) {
	h.mu.Lock()
	defer h.mu.Unlock()
	v, ok := h.vals[id]
	delete(h.vals, id)
	return v, ok
}

func (h *fakeRH) CountValues(bool) int { h.mu.Lock(); defer h.mu.Unlock(); return len(h.vals) }

func (h *fakeRH) ClearValues() []uint32 {
	h.mu.Lock()
	defer h.mu.Unlock()
	var ids []uint32
	for id := range h.vals {
		ids = append(ids, id)
	}
	h.vals = map[uint32]directive.Value{}
	return ids
}

func (h *fakeRH) MarkIdle(idle bool) { h.n.idle[h.dir].Store(idle) }

func (h *fakeRH) AddValueRemovedCallback(id uint32, cb func()) func() {
	h.mu.Lock()
	_, ok := h.vals[id]
	h.mu.Unlock()
	if !ok && cb != nil {
		cb()
	}
	return func() {}
}

func (h *fakeRH) AddResolverRemovedCallback(cb func()) func() { return func() {} }

func (h *fakeRH) AddResolver(res directive.Resolver, cb func()) func() {
	if cb != nil {
		cb() // child resolvers are not run by this handler
	}
	return func() {}
}

var _ directive.ResolverHandler = (*fakeRH)(nil)

func (h *valueHandler) HandleValueRemoved(directive.Instance, directive.AttachedValue) {}
func (h *valueHandler) HandleInstanceDisposed(directive.Instance)                       {}

var streamSeq atomic.Int64

func quietLogger() *logrus.Entry {
	l := logrus.New()
	l.SetOutput(io.Discard)
	l.SetLevel(logrus.PanicLevel)
	return logrus.NewEntry(l)
}

// StartTwoNode builds both nodes, registers all directives and waits until
// every one of them is idle (= registered with its solicitation controller).
// idA / idB / wrong are three distinct peer ids. Returns an error string when
// the setup could not be completed (inconclusive, not a verdict).
func StartTwoNode(scen *Scenario, idA, idB, wrong peer.ID) (*TwoNode, string) {
	ctx, cancel := context.WithCancel(context.Background())
	t := &TwoNode{Scen: scen, Wrong: wrong, ctx: ctx, cancel: cancel}
	lo, hi := idA, idB
	if lo > hi {
		lo, hi = hi, lo
	}
	ids := [2]peer.ID{lo, hi}
	if scen.SwapIDs {
		ids = [2]peer.ID{hi, lo}
	}
	le := quietLogger()
	for i := 0; i < 2; i++ {
		n := &Node{Idx: i, PeerID: ids[i]}
		n.Bus = inmem.NewBus(cdc.NewController(ctx, le))
		sol, err := link_solicit_controller.NewController(le, &link_solicit_controller.Config{})
		if err != nil {
			cancel()
			return nil, "NewController: " + err.Error()
		}
		n.Sol = sol
		t.Nodes[i] = n
	}
	for i := 0; i < 2; i++ {
		n := t.Nodes[i]
		for li := 0; li < scen.Links; li++ {
			n.Links = append(n.Links, &FakeMountedLink{
				UUID:          uint64(100*(i+1) + li),
				TptUUID:       t.tptID(i, li),
				RemoteTptUUID: t.tptID(1-i, li),
				Local:         n.PeerID,
				Remote:        t.Nodes[1-i].PeerID,
				Open:          t.openStream(i, li),
			})
		}
		if _, err := n.Bus.AddController(ctx, n.Sol, nil); err != nil {
			cancel()
			return nil, "AddController(solicit): " + err.Error()
		}
		if _, err := n.Bus.AddController(ctx, &linkCtrl{n: n}, nil); err != nil {
			cancel()
			return nil, "AddController(links): " + err.Error()
		}
	}
	for i := 0; i < 2; i++ {
		t.Nodes[i].idle = make([]atomic.Bool, len(scen.Dirs[i]))
	}
	if !scen.Dynamic {
		for i := 0; i < 2; i++ {
			for di := range scen.Dirs[i] {
				if e := t.addDirective(i, di); e != "" {
					t.Stop()
					return nil, e
				}
			}
		}
		if !t.waitIdle(nil) {
			t.Stop()
			return nil, "directives did not become idle (watchdog)"
		}
	} else if len(scen.Pre) > 0 {
		for _, w := range scen.Pre {
			if e := t.addDirective(w[0], w[1]); e != "" {
				t.Stop()
				return nil, e
			}
		}
		if !t.waitIdle(scen.Pre) {
			t.Stop()
			return nil, "pre-registered directives did not become idle (watchdog)"
		}
	}
	return t, ""
}

// addDirective registers directive di of node i on its bus.
func (t *TwoNode) addDirective(i, di int) string {
	n := t.Nodes[i]
	spec := t.Scen.Dirs[i][di]
	var pc peer.ID
	switch spec.Peer {
	case PeerRight:
		pc = t.Nodes[1-i].PeerID
	case PeerWrong:
		pc = t.Wrong
	}
	var tid uint64
	switch spec.Tpt {
	case TptLink1:
		tid = t.tptID(i, 0)
	case TptLink2:
		tid = t.tptID(i, 1)
	case TptWrong:
		tid = 999
	}
	var cb []byte
	if spec.C != "" {
		cb = []byte(spec.C)
	}
	sp := link_solicit.NewSolicitProtocol(protocol.ID(spec.P), cb, pc, tid)
	if isFakeMode(t.Scen.Mode(i, di)) {
		// registered with the solicitation controller directly; the harness is the
		// resolver handler
		resolvers, err := n.Sol.HandleDirective(t.ctx, NewFakeDI(sp))
		if err != nil || len(resolvers) == 0 {
			return fmt.Sprintf("HandleDirective(SolicitProtocol): %v (%d resolvers)", err, len(resolvers))
		}
		rh := &fakeRH{t: t, n: n, dir: di, vals: map[uint32]directive.Value{}}
		rctx, rcancel := context.WithCancel(t.ctx)
		wg := &sync.WaitGroup{}
		n.mu.Lock()
		if n.fakeCancel == nil {
			n.fakeCancel, n.fakeWG = map[int]context.CancelFunc{}, map[int]*sync.WaitGroup{}
		}
		n.fakeCancel[di], n.fakeWG[di] = rcancel, wg
		n.mu.Unlock()
		for _, res := range resolvers {
			wg.Add(1)
			go func(res directive.Resolver) { defer wg.Done(); _ = res.Resolve(rctx, rh) }(res)
		}
		return ""
	}
	inst, ref, err := n.Bus.AddDirective(sp, &valueHandler{t: t, n: n, dir: di})
	if err != nil {
		return "AddDirective: " + err.Error()
	}
	n.mu.Lock()
	for k, o := range n.dis {
		if o == inst {
			// The bus de-duplicated this request onto the directive of an earlier
			// request. The harness-side request keeps its own reference + handler
			// and is JUDGED like any other by what it receives: its ground truth is
			// its own (protocol id, context, constraints). The only abstention is
			// the documented one (property C37): two requests that differ in nothing
			// but the transport constraint, on a tree whose IsEquivalent ignores it.
			other := t.Scen.Dirs[i][n.disDir[k]]
			if other.P == spec.P && other.C == spec.C && other.Peer == spec.Peer && other.Tpt != spec.Tpt {
				n.mu.Unlock()
				ref.Release()
				return "two directive specs that differ only in the transport constraint were merged into one instance (C37): " + spec.String()
			}
			if n.merged == nil {
				n.merged = map[int]int{}
			}
			n.merged[di] = n.disDir[k]
			break
		}
	}
	n.dis = append(n.dis, inst)
	n.disDir = append(n.disDir, di)
	n.refs = append(n.refs, ref)
	n.dirRefs = append(n.dirRefs, ref)
	n.mu.Unlock()
	inst.AddIdleCallback(func(isIdle bool, _ []error) { n.idle[di].Store(isIdle) })
	return ""
}

// waitIdle waits until the given (node, directive) pairs (nil: all) are idle,
// i.e. registered with the node's solicitation controller.
func (t *TwoNode) waitIdle(which [][2]int) bool {
	return Poll(60*time.Second, func() bool {
		if which != nil {
			for _, w := range which {
				if !t.Nodes[w[0]].idle[w[1]].Load() {
					return false
				}
			}
			return true
		}
		for i := 0; i < 2; i++ {
			for di := range t.Nodes[i].idle {
				if !t.Nodes[i].idle[di].Load() {
					return false
				}
			}
		}
		return true
	})
}

// AddStage (dynamic scenarios) executes segment k of the scenario's history:
// the steps up to the next quiescence point (registrations one at a time, each
// only after the previous one is registered; releases; stalls).
func (t *TwoNode) AddStage(k int) string {
	segs := t.Scen.segments()
	if k >= len(segs) {
		return ""
	}
	for _, st := range segs[k] {
		if e := t.runStep(st); e != "" {
			return e
		}
	}
	if k == len(segs)-1 && len(t.Scen.Script) > 0 {
		// the history ends with all back-pressure lifted
		t.setStall(0, false)
		t.setStall(1, false)
	}
	return ""
}

func (t *TwoNode) tptID(node, li int) uint64 { return uint64(1000*(node+1) + 10*(li+1)) }

// AddLinks makes the links appear on both nodes (EstablishLinkWithPeer
// directives resolved by the harness link controller).
func (t *TwoNode) AddLinks() string {
	for i := 0; i < 2; i++ {
		n := t.Nodes[i]
		_, ref, err := n.Bus.AddDirective(link.NewEstablishLinkWithPeer("", t.Nodes[1-i].PeerID), nil)
		if err != nil {
			return "AddDirective(EstablishLinkWithPeer): " + err.Error()
		}
		n.mu.Lock()
		n.refs = append(n.refs, ref)
		n.mu.Unlock()
	}
	return ""
}

// openStream is the stream factory of node `from`'s link li: it creates the
// in-memory stream and dispatches the remote end like the transport
// controller does (HandleMountedStream directive on the remote bus).
func (t *TwoNode) openStream(from, li int) func(ctx context.Context, l *FakeMountedLink, pid protocol.ID) (link.MountedStream, error) {
	return func(ctx context.Context, l *FakeMountedLink, pid protocol.ID) (link.MountedStream, error) {
		if err := t.ctx.Err(); err != nil {
			return nil, err
		}
		to := 1 - from
		id := streamSeq.Add(1)
		a, b := NewFakeStreamPair(id)
		rl := t.Nodes[to].Links[li]
		rec := &StreamRec{ID: id, Link: li, Opener: from, Proto: pid, Ends: [2]*FakeStream{a, b}}
		if pid != link_solicit_controller.ControlProtocolID && t.Scen.StreamFault != 0 {
			a.Fault, b.Fault = t.Scen.StreamFault, t.Scen.StreamFault
		}
		rec.MS[0] = &FakeMountedStream{Strm: a, Proto: pid, Lnk: l, Peer: l.Remote}
		rec.MS[1] = &FakeMountedStream{Strm: b, Proto: pid, Lnk: rl, Peer: rl.Remote}
		t.mu.Lock()
		t.streams = append(t.streams, rec)
		if pid == link_solicit_controller.ControlProtocolID {
			// back-pressure on the control stream (flag and stream list are both
			// guarded by t.mu, see setStall): end 0 is written by the opener
			if t.Nodes[from].stallCtl.Load() {
				a.StallWrites(true)
			}
			if t.Nodes[to].stallCtl.Load() {
				b.StallWrites(true)
			}
		}
		t.mu.Unlock()
		t.nstreams.Add(1)
		t.disp.Add(1)
		go t.dispatch(to, rec)
		// the opener's controller is about to resolve the match with this stream
		t.goneAtStream(from, pid)
		return rec.MS[0], nil
	}
}

func (t *TwoNode) dispatch(to int, rec *StreamRec) {
	defer t.dispDone.Add(1)
	n := t.Nodes[to]
	ms := rec.MS[1]
	dir := link.NewHandleMountedStream(rec.Proto, n.PeerID, ms.Peer)
	val, _, ref, err := bus.ExecOneOff(t.ctx, n.Bus, dir, nil, nil)
	if err != nil {
		ms.Strm.Close()
		return
	}
	defer ref.Release()
	h, ok := val.GetValue().(link.MountedStreamHandler)
	if !ok {
		ms.Strm.Close()
		return
	}
	t.goneAtStream(to, rec.Proto)
	if err := h.HandleMountedStream(t.ctx, ms); err != nil {
		ms.Strm.Close()
	}
}

// Stop tears the scenario down.
func (t *TwoNode) Stop() {
	for _, n := range t.Nodes {
		if n == nil {
			continue
		}
		n.mu.Lock()
		refs := n.refs
		n.refs = nil
		n.mu.Unlock()
		for _, r := range refs {
			r.Release()
		}
	}
	t.cancel()
	// unblock readers parked on harness streams
	for _, s := range t.Streams() {
		s.Ends[0].rd.close()
		s.Ends[0].wr.close()
	}
}

// StreamOf finds the record and end index of a mounted stream handed out by
// the harness.
func (t *TwoNode) StreamOf(ms link.MountedStream) (*StreamRec, int) {
	f, ok := ms.(*FakeMountedStream)
	if !ok || f == nil {
		return nil, -1
	}
	for _, s := range t.Streams() {
		for e := 0; e < 2; e++ {
			if s.MS[e] == f {
				return s, e
			}
		}
	}
	return nil, -1
}

// QuiesceAll waits until the whole process is quiescent: the harness activity
// vector is unchanged over several polls (cheap), and then every goroutine
// other than the caller is parked with the same goroutine set and the same
// activity vector in two consecutive goroutine dumps. Returns false on
// watchdog expiry (inconclusive).
func QuiesceAll(watchdog time.Duration, counters func() string) bool {
	self := CurGoroutineID()
	var lastC, lastDump string
	stableC, quiet := 0, 0
	return Poll(watchdog, func() bool {
		c := counters()
		if c != lastC {
			lastC, stableC, quiet, lastDump = c, 0, 0, ""
			return false
		}
		stableC++
		if stableC < 3 {
			return false
		}
		var b strings.Builder
		for _, g := range Goroutines() {
			if g.ID == self {
				continue
			}
			if !g.Parked() {
				quiet, lastDump = 0, ""
				return false
			}
			b.WriteString(strconv.FormatInt(g.ID, 10))
			b.WriteByte(' ')
		}
		if counters() != c {
			quiet, lastDump = 0, ""
			return false
		}
		cur := b.String()
		if cur == lastDump {
			quiet++
		} else {
			quiet, lastDump = 1, cur
		}
		return quiet >= 2
	})
}
