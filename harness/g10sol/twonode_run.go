package g10sol

import (
	"fmt"
	"math/rand/v2"
	"runtime"
	"sort"
	"strconv"
	"sync"
	"time"

	"github.com/aperturerobotics/bifrost/link"
	link_solicit "github.com/aperturerobotics/bifrost/link/solicit"
	"github.com/aperturerobotics/bifrost/util/verifhook"
	"github.com/aperturerobotics/controllerbus/directive"
	"verifharness/keys"
	"verifharness/vf"
)

// pcPair is a (protocol id, context) pair of the scenario universe.
type pcPair struct{ p, c string }

// universe: three concatenation families (members of one family share p||c,
// i.e. they are boundary-shifted versions of each other) plus unrelated pairs.
var universe = [][]pcPair{
	{{"ab", "c"}, {"a", "bc"}, {"abc", ""}},
	{{"dex/v1", "bucket"}, {"dex/v1b", "ucket"}, {"dex/", "v1bucket"}},
	{{"x", "\x00y"}, {"x\x00", "y"}},
	{{"test/echo", ""}},
	{{"test/echo", "bucket-a"}},
	{{"test/echo", "bucket-b"}},
	{{"test/echo", "bucket-ab"}},
	{{"test/echo2", "bucket-a"}},
	{{"test/echo2", ""}},
}

func pickPC(rng *rand.Rand) pcPair {
	f := universe[rng.IntN(len(universe))]
	return f[rng.IntN(len(f))]
}

func sibling(rng *rand.Rand, x pcPair) (pcPair, bool) {
	for _, f := range universe {
		for _, m := range f {
			if m == x && len(f) > 1 {
				for {
					y := f[rng.IntN(len(f))]
					if y != x {
						return y, true
					}
				}
			}
		}
	}
	return x, false
}

func randConstraint(rng *rand.Rand, _ int) (int, int) {
	p := PeerNone
	switch rng.IntN(6) {
	case 0, 1:
		p = PeerRight
	case 2:
		p = PeerWrong
	}
	t := TptNone
	switch rng.IntN(7) {
	case 0, 1:
		t = TptLink1
	case 2:
		t = TptLink2
	case 3:
		t = TptWrong
	}
	return p, t
}

// transportDistinguished reports whether the bus keeps two SolicitProtocol
// directives apart that differ only in the transport constraint (property C37;
// on trees where IsEquivalent ignores it they would be merged and the second
// constraint silently lost, so such pairs are then not generated). This only
// shapes the case list, never the oracle.
var transportDistinguished = sync.OnceValue(func() bool {
	a := link_solicit.NewSolicitProtocol("probe", nil, "", 1)
	b := link_solicit.NewSolicitProtocol("probe", nil, "", 2)
	ae, ok := a.(interface {
		IsEquivalent(directive.Directive) bool
	})
	return ok && !ae.IsEquivalent(b)
})

// addDir appends d unless the bus would merge it with a directive already on
// the node: same (p, c, peer constraint) and - if the tree distinguishes it -
// same transport constraint.
func addDir(list []DirSpec, d DirSpec) []DirSpec {
	for _, o := range list {
		if o.P == d.P && o.C == d.C && o.Peer == d.Peer && (o.Tpt == d.Tpt || !transportDistinguished()) {
			return list
		}
	}
	return append(list, d)
}

// GenScenario draws one scenario. multiOwner raises the share of several local
// directives with the same (p,c) and different constraints (C31).
func GenScenario(rng *rand.Rand, multiOwner bool) *Scenario {
	s := &Scenario{Links: 1 + rng.IntN(2), SwapIDs: rng.IntN(2) == 0}
	na := 1 + rng.IntN(3)
	for i := 0; i < na; i++ {
		x := pickPC(rng)
		p, t := randConstraint(rng, s.Links)
		s.Dirs[0] = addDir(s.Dirs[0], DirSpec{x.p, x.c, p, t})
	}
	// the other side: same pair, boundary-shifted sibling, or unrelated
	for _, d := range s.Dirs[0] {
		switch rng.IntN(5) {
		case 0, 1, 2:
			p, t := randConstraint(rng, s.Links)
			s.Dirs[1] = addDir(s.Dirs[1], DirSpec{d.P, d.C, p, t})
		case 3:
			if y, ok := sibling(rng, pcPair{d.P, d.C}); ok {
				p, t := randConstraint(rng, s.Links)
				s.Dirs[1] = addDir(s.Dirs[1], DirSpec{y.p, y.c, p, t})
			}
		}
	}
	if rng.IntN(2) == 0 || len(s.Dirs[1]) == 0 {
		x := pickPC(rng)
		p, t := randConstraint(rng, s.Links)
		s.Dirs[1] = addDir(s.Dirs[1], DirSpec{x.p, x.c, p, t})
	}
	// several local directives with the same (p,c), different constraints
	k := 1
	if multiOwner {
		k = 3
	}
	for n := 0; n < 2; n++ {
		if rng.IntN(4) < k && len(s.Dirs[n]) > 0 {
			d := s.Dirs[n][rng.IntN(len(s.Dirs[n]))]
			vary := rng.IntN(2)
			if vary == 0 || !transportDistinguished() {
				d.Peer = (d.Peer + 1) % 2 // none <-> right (wrong -> right)
				_, d.Tpt = randConstraint(rng, s.Links)
				if multiOwner && rng.IntN(2) == 0 {
					d.Tpt = TptNone
				}
			} else {
				// same peer constraint, different transport constraint
				d.Tpt = (d.Tpt + 1 + rng.IntN(2)) % 3 // among any / link1 / link2
			}
			s.Dirs[n] = addDir(s.Dirs[n], d)
		}
	}
	if rng.IntN(2) == 0 {
		s.Dirs[0], s.Dirs[1] = s.Dirs[1], s.Dirs[0]
	}
	return s
}

// variantOf returns a request that differs from d ONLY in the context (two out
// of three) or ONLY in the protocol id: the empty context against a non-empty
// one, a context that extends / shortens the other, another context of the same
// length; an id that extends / shortens the other. Constraints are kept, so the
// two requests are as similar as two different solicitations can be.
func variantOf(rng *rand.Rand, d DirSpec) DirSpec {
	v := d
	if rng.IntN(3) < 2 {
		var cands []string
		if d.C != "" {
			cands = append(cands, "", "", "", d.C+"b", d.C[:len(d.C)-1], "bucket-b", "\x00")
		} else {
			cands = append(cands, "bucket-a", "bucket-a", "bucket-b", "b", "\x00")
		}
		for {
			c := cands[rng.IntN(len(cands))]
			if c != d.C {
				v.C = c
				return v
			}
		}
	}
	cands := []string{d.P + "2", d.P + "/", "test/echo2"}
	if len(d.P) > 1 {
		cands = append(cands, d.P[:len(d.P)-1])
	}
	for {
		q := cands[rng.IntN(len(cands))]
		if q != d.P {
			v.P = q
			return v
		}
	}
}

// benignConstraint: mostly admitting constraints (the variant scenarios are
// about (protocol id, context), not about constraints).
func benignConstraint(rng *rand.Rand, links int) (int, int) {
	if rng.IntN(5) == 0 {
		return randConstraint(rng, links)
	}
	p := PeerNone
	if rng.IntN(3) == 0 {
		p = PeerRight
	}
	t := TptNone
	if rng.IntN(5) == 0 {
		t = TptLink1
	}
	return p, t
}

// GenVariantScenario draws a scenario around requests on ONE bus that differ
// only in the context or only in the protocol id, in both registration orders
// (static scenarios register a node's requests in list order; dynamic ones in
// Scenario.Order), while the other node solicits the first, the second, both or
// neither of them. The harness judges every request by its own (p, c).
func GenVariantScenario(rng *rand.Rand) *Scenario {
	s := &Scenario{Links: 1 + rng.IntN(2), SwapIDs: rng.IntN(2) == 0}
	pool := []pcPair{{"test/echo", ""}, {"test/echo", "bucket-a"}, {"test/echo", "bucket-b"}, {"test/echo", "bucket-ab"}, {"dex/v1", "bucket"}, {"test/echo2", "bucket-a"}, {"ab", "c"}, {"x", "\x00y"}}
	var pairsSeen []pcPair
	for n := 0; n < 2; n++ {
		if n == 1 && rng.IntN(2) == 0 {
			break
		}
		x := pool[rng.IntN(len(pool))]
		pc, tc := benignConstraint(rng, s.Links)
		d := DirSpec{x.p, x.c, pc, tc}
		v := variantOf(rng, d)
		k := 1
		if rng.IntN(4) == 0 {
			k = 2 // a chain of three: d, v, variant of v
		}
		list := []DirSpec{d, v}
		if k == 2 {
			list = append(list, variantOf(rng, v))
		}
		rng.Shuffle(len(list), func(i, j int) { list[i], list[j] = list[j], list[i] })
		for _, e := range list {
			s.Dirs[n] = addDir(s.Dirs[n], e)
			pairsSeen = append(pairsSeen, pcPair{e.P, e.C})
		}
		if rng.IntN(3) == 0 { // an unrelated request in between / around
			y := pickPC(rng)
			p2, t2 := randConstraint(rng, s.Links)
			e := DirSpec{y.p, y.c, p2, t2}
			at := rng.IntN(len(s.Dirs[n]) + 1)
			dup := false
			for _, o := range s.Dirs[n] {
				if o.P == e.P && o.C == e.C && o.Peer == e.Peer {
					dup = true
				}
			}
			if !dup {
				s.Dirs[n] = append(s.Dirs[n][:at], append([]DirSpec{e}, s.Dirs[n][at:]...)...)
			}
		}
	}
	// the other side(s): each node additionally solicits a PRNG subset of the
	// pairs seen on the other node
	for n := 0; n < 2; n++ {
		for _, x := range pairsSeen {
			onOther := false
			for _, o := range s.Dirs[1-n] {
				if o.P == x.p && o.C == x.c {
					onOther = true
				}
			}
			if !onOther || rng.IntN(2) == 0 {
				continue
			}
			has := false
			for _, o := range s.Dirs[n] {
				if o.P == x.p && o.C == x.c {
					has = true
				}
			}
			if has {
				continue
			}
			p2, t2 := benignConstraint(rng, s.Links)
			s.Dirs[n] = addDir(s.Dirs[n], DirSpec{x.p, x.c, p2, t2})
		}
	}
	for n := 0; n < 2; n++ {
		if len(s.Dirs[n]) == 0 {
			y := pairsSeen[rng.IntN(len(pairsSeen))]
			s.Dirs[n] = append(s.Dirs[n], DirSpec{y.p, y.c, PeerNone, TptNone})
		}
	}
	if rng.IntN(2) == 0 {
		s.Dirs[0], s.Dirs[1] = s.Dirs[1], s.Dirs[0]
	}
	return s
}

// contextOrIDVariants counts pairs of requests on one node that differ only in
// the context or only in the protocol id (same constraints).
func (s *Scenario) contextOrIDVariants() (ctxOnly, idOnly, withEmptyCtx int) {
	for n := 0; n < 2; n++ {
		for i, a := range s.Dirs[n] {
			for _, b := range s.Dirs[n][i+1:] {
				if a.Peer != b.Peer || a.Tpt != b.Tpt {
					continue
				}
				switch {
				case a.P == b.P && a.C != b.C:
					ctxOnly++
					if a.C == "" || b.C == "" {
						withEmptyCtx++
					}
				case a.P != b.P && a.C == b.C:
					idOnly++
				}
			}
		}
	}
	return
}

// scenario statistics used for the non-triviality rule
func (s *Scenario) stats() (expected, refusedOverlap int) {
	for n := 0; n < 2; n++ {
		for di, d := range s.Dirs[n] {
			for li := 0; li < s.Links; li++ {
				if s.Expected(n, di, li) {
					expected++
					continue
				}
				// an overlap that must be refused: other side has same p||c
				for _, o := range s.Dirs[1-n] {
					_, joined := JoinCollision(o.P, o.C, d.P, d.C) // incl. the plain concatenation
					if joined || (o.P == d.P && o.C != d.C) {
						refusedOverlap++
						break
					}
				}
			}
		}
	}
	return
}

type batchItem struct {
	scen *Scenario
	t    *TwoNode
	err  string
}

// runBatches runs the scenarios in lock-step batches: start all, add links,
// wait for process-wide quiescence, evaluate, stop.
func runBatches(r *vf.Run, tag string, scens []*Scenario, rng *rand.Rand, batch int, eval func(it *batchItem)) {
	pool := keys.Pool(rng, 3)
	t0 := time.Now() // evidence only
	var tm [6]time.Duration
	lap := time.Now()
	mark := func(i int) { tm[i] += time.Since(lap); lap = time.Now() }
	defer func() {
		r.Extra("two_node_phase_breakdown_s"+tag, fmt.Sprintf("start=%.2f quiesce-idle=%.2f quiesce-links=%.2f dynamic=%.2f eval=%.2f stop-drain=%.2f", tm[0].Seconds(), tm[1].Seconds(), tm[2].Seconds(), tm[3].Seconds(), tm[4].Seconds(), tm[5].Seconds()))
		r.Extra("two_node_phase_s"+tag, time.Since(t0).Seconds())
		r.Extra("goroutines_left_after_two_node_phase"+tag, runtime.NumGoroutine())
	}()
	for off := 0; off < len(scens); off += batch {
		end := off + batch
		if end > len(scens) {
			end = len(scens)
		}
		items := make([]*batchItem, end-off)
		r.Begin(fmt.Sprintf("two-node batch %d..%d first=%s", off, end-1, scens[off].Sig()))
		var wg sync.WaitGroup
		for i := range items {
			items[i] = &batchItem{scen: scens[off+i]}
			wg.Add(1)
			go func(it *batchItem) {
				defer wg.Done()
				it.t, it.err = StartTwoNode(it.scen, pool[0].ID, pool[1].ID, pool[2].ID)
			}(items[i])
		}
		wg.Wait()
		mark(0)
		counters := func() string {
			s := ""
			for _, it := range items {
				if it.t != nil {
					s += it.t.Counters() + ";"
				}
			}
			return s
		}
		// everything registered and idle; settle before the links appear
		ok := QuiesceAll(60*time.Second, counters)
		mark(1)
		for _, it := range items {
			if it.t != nil && it.err == "" {
				if e := it.t.AddLinks(); e != "" {
					it.err = e
				}
			}
		}
		if ok {
			ok = QuiesceAll(60*time.Second, counters)
		}
		mark(2)
		// dynamic scenarios: the links are up, now register the directives in order,
		// stage by stage with a process-wide quiescence after every stage
		maxStages := 0
		for _, it := range items {
			if it.t != nil && it.err == "" && it.scen.Dynamic {
				maxStages = max(maxStages, len(it.scen.stageList()))
			}
		}
		for k := 0; k < maxStages; k++ {
			for _, it := range items {
				if it.t != nil && it.err == "" && it.scen.Dynamic && k < len(it.scen.stageList()) {
					wg.Add(1)
					go func(it *batchItem) {
						defer wg.Done()
						it.err = it.t.AddStage(k)
					}(it)
				}
			}
			wg.Wait()
			if ok {
				ok = QuiesceAll(60*time.Second, counters)
			}
		}
		mark(3)
		for _, it := range items {
			switch {
			case it.err != "":
				r.Inconclusive("two-node setup: " + it.err + " :: " + it.scen.Sig())
				r.Case("2n|"+it.scen.Sig(), false)
			case !ok:
				r.Inconclusive("two-node: quiescence watchdog expired :: " + it.scen.Sig())
				r.Case("2n|"+it.scen.Sig(), false)
			default:
				eval(it)
			}
		}
		mark(4)
		for _, it := range items {
			if it.t != nil {
				it.t.Stop()
			}
		}
		// let the torn-down scenarios drain (not a verdict; keeps the process small)
		QuiesceAll(10*time.Second, func() string { return "" })
		mark(5)
	}
}

// acceptAllSequential accepts every value of a node in arrival order and maps
// values to physical streams. Values that share a wrapper (pointer-equal)
// share the stream of whichever accept succeeded.
func acceptAllSequential(t *TwoNode, n *Node) (byDir map[int][]*StreamRec, unattributed int, accepts map[int64]int) {
	byDir = map[int][]*StreamRec{}
	accepts = map[int64]int{}
	valStream := map[link_solicit.SolicitMountedStream]*StreamRec{}
	vals := n.Values()
	for _, v := range vals {
		ms, _, err := v.Val.AcceptMountedStream()
		if err == nil && ms != nil {
			if rec, _ := t.StreamOf(ms); rec != nil {
				valStream[v.Val] = rec
				accepts[rec.ID]++
			}
		}
	}
	for _, v := range vals {
		if rec := valStream[v.Val]; rec != nil {
			byDir[v.Dir] = append(byDir[v.Dir], rec)
		} else {
			unattributed++
		}
	}
	return
}

// RunTwoNodeC30 is the two-node part of C30.
func RunTwoNodeC30(r *vf.Run) {
	rng := r.Rand("c30-two-node")
	n := r.N(144, 2000)
	scens := make([]*Scenario, 0, n)
	// the design's witness first: ("ab","c") on one side, ("a","bc") on the other
	scens = append(scens,
		&Scenario{Links: 1, Dirs: [2][]DirSpec{{{"ab", "c", PeerNone, TptNone}}, {{"a", "bc", PeerNone, TptNone}}}},
		&Scenario{Links: 2, SwapIDs: true, Dirs: [2][]DirSpec{{{"ab", "c", PeerNone, TptLink1}, {"test/echo", "", PeerRight, TptNone}}, {{"ab", "c", PeerNone, TptLink2}, {"test/echo", "", PeerNone, TptNone}}}},
		&Scenario{Links: 1, Dirs: [2][]DirSpec{{{"test/echo", "bucket-a", PeerWrong, TptNone}, {"dex/v1", "bucket", PeerRight, TptLink1}}, {{"test/echo", "bucket-a", PeerNone, TptNone}, {"dex/v1", "bucket", PeerNone, TptNone}}}},
	)
	// requests on one bus that differ only in the context (incl. the empty one) or
	// only in the protocol id, registered in either order; the other node solicits
	// one of them. Every request is judged by its own (p, c).
	for _, first := range []int{0, 1} {
		for _, pr := range [][2]DirSpec{
			{{"test/echo", "bucket-a", PeerNone, TptNone}, {"test/echo", "", PeerNone, TptNone}},
			{{"test/echo", "bucket-a", PeerNone, TptNone}, {"test/echo2", "bucket-a", PeerNone, TptNone}},
		} {
			a, b := pr[first], pr[1-first]
			// the remote node solicits only the FIRST registered request's pair
			scens = append(scens, &Scenario{Links: 1, SwapIDs: first == 1, Dirs: [2][]DirSpec{{a, b}, {{a.P, a.C, PeerNone, TptNone}}}})
		}
	}
	nFixed := len(scens)
	for len(scens) < n {
		var sc *Scenario
		if (len(scens)-nFixed)%4 == 1 {
			sc = GenVariantScenario(rng)
		} else {
			sc = GenScenario(rng, false)
		}
		if len(scens)%3 == 2 {
			// dynamic: links first, directives registered one by one in a PRNG order
			sc.Dynamic = true
			for ni := 0; ni < 2; ni++ {
				for di := range sc.Dirs[ni] {
					sc.Order = append(sc.Order, [2]int{ni, di})
				}
			}
			rng.Shuffle(len(sc.Order), func(i, j int) { sc.Order[i], sc.Order[j] = sc.Order[j], sc.Order[i] })
		}
		scens = append(scens, sc)
	}
	// HISTORY block (own batches): two / three different requests on ONE node whose
	// (id, context) coincide when joined with a separator-like byte (or plainly),
	// registered before the links (static), one after the other with a quiescence
	// in between (staged, both orders) or back to back (together), while the other
	// node solicits exactly one of them (sometimes two).
	srng := r.Rand("c30-two-node-separator-histories")
	one := func(a, b DirSpec, remote DirSpec, swap bool) *Scenario {
		sc := &Scenario{Links: 1, SwapIDs: swap, Dynamic: true, Note: "separator-family/staged/fixed",
			Dirs: [2][]DirSpec{{a, b}, {remote}}, Stages: [][][2]int{{{0, 0}}, {{0, 1}}, {{1, 0}}}}
		for _, st := range sc.Stages {
			sc.Order = append(sc.Order, st...)
		}
		return sc
	}
	dx, dy := DirSpec{"dex/x", "y", PeerNone, TptNone}, DirSpec{"dex", "x/y", PeerNone, TptNone}
	scens = append(scens, one(dx, dy, dx, false), one(dy, dx, dx, true), one(dx, dy, dy, true), one(dy, dx, dy, false))
	for k, nSep := 0, r.N(44, 400); k < nSep; k++ {
		kind := 1 // half staged, a quarter static, a quarter together
		switch k % 4 {
		case 0:
			kind = 0
		case 2:
			kind = 2
		}
		// separators round-robin: every separator gets several families of every kind
		scens = append(scens, GenSeparatorScenario(srng, kind, 3*k+k/4))
	}
	sampled, sampledSep := 0, 0
	eval := func(it *batchItem) {
		s, t := it.scen, it.t
		exp, refused := s.stats()
		r.Case("2n|"+s.Sig(), exp > 0 && refused > 0)
		if sj, pl := s.joinSiblings(); sj+pl > 0 {
			r.Count("two_node_scenarios_with_local_requests_coinciding_when_joined", 1)
			r.Count("two_node_local_request_pairs_coinciding_under_a_separator", sj)
			r.Count("two_node_local_request_pairs_coinciding_in_plain_concatenation", pl)
			if len(s.Stages) > 1 {
				r.Count("two_node_scenarios_coinciding_requests_registered_with_quiescence_in_between", 1)
			}
		}
		if s.Note != "" {
			r.Count("two_node_scenarios_"+s.Note, 1)
			if sampledSep < 2 && len(s.Stages) > 1 && exp > 0 {
				sampledSep++
				r.Sample(map[string]any{"kind": "two-node-history", "scenario": s, "expected_matches": exp, "streams_opened": len(t.Streams())})
			}
		}
		r.Count("two_node_scenarios", 1)
		r.Extra("directives_differing_only_in_transport_generated", transportDistinguished())
		if len(s.Deriv) > 0 {
			for _, d := range s.Deriv {
				r.Count("two_node_derived_pairs_solicited", 1)
				r.Distinct("derivation_rules_in_two_node_scenarios", d.Rule)
				if d.BaseCtxLen > 32 {
					r.Count("two_node_derived_pairs_base_context_longer_than_32_bytes", 1)
				}
				if d.BaseCtxLen >= 1000 {
					r.Count("two_node_derived_pairs_base_context_1000_bytes_or_more", 1)
				}
			}
		}
		if len(s.Script) > 0 {
			rel, stl, qs := s.setChangeStats()
			r.Count("two_node_set_change_releases_scripted", rel)
			r.Count("two_node_set_change_stalls_scripted", stl)
			r.Count("two_node_set_change_quiescence_points_inside_history", qs)
			low := 0
			if s.SwapIDs {
				low = 1
			}
			for ni := 0; ni < 2; ni++ {
				role := "higher_peer_id"
				if ni == low {
					role = "lower_peer_id"
				}
				for di := range s.Dirs[ni] {
					if s.Released(ni, di) {
						r.Count("two_node_requests_released_on_"+role+"_node", 1)
					}
				}
				r.Count("two_node_releases_executed", int(t.Nodes[ni].Releases.Load()))
				r.Count("two_node_control_loops_seen_parked_in_stalled_send_"+role, int(t.Nodes[ni].StalledSends.Load()))
			}
		}
		if s.IsMany() {
			a, b := s.manySizes()
			r.Count("two_node_many_solicitation_scenarios", 1)
			r.Distinct("many_solicitation_set_sizes_per_node", strconv.Itoa(a))
			r.Distinct("many_solicitation_set_sizes_per_node", strconv.Itoa(b))
			for _, c := range []int{a, b} {
				if c > 240 {
					r.Count("two_node_nodes_with_241_to_256_solicitations_on_one_link", 1)
				}
				if c == ManyLimit {
					r.Count("two_node_nodes_with_exactly_256_solicitations_on_one_link", 1)
				}
			}
			if a >= 200 && b >= 200 {
				r.Count("two_node_many_solicitation_scenarios_both_nodes_200_or_more", 1)
			}
		}
		if s.Dynamic {
			r.Count("two_node_scenarios_dynamic", 1)
		}
		if exp > 0 && refused > 0 {
			r.Count("two_node_scenarios_nontrivial", 1)
		}
		if co, io, we := s.contextOrIDVariants(); co+io > 0 {
			r.Count("two_node_scenarios_with_requests_differing_only_in_context_or_id", 1)
			r.Count("two_node_request_pairs_differing_only_in_context", co)
			r.Count("two_node_request_pairs_differing_only_in_context_one_empty", we)
			r.Count("two_node_request_pairs_differing_only_in_protocol_id", io)
		}
		r.Count("two_node_streams_opened", len(t.Streams()))
		for ni := 0; ni < 2; ni++ {
			node := t.Nodes[ni]
			byDir, unattr, _ := acceptAllSequential(t, node)
			r.Count("two_node_values_delivered", len(node.Values()))
			r.Count("two_node_values_unattributed", unattr)
			for di, d := range s.Dirs[ni] {
				got := map[int]int{}
				for _, rec := range byDir[di] {
					got[rec.Link]++
				}
				// a request that the bus de-duplicated onto an earlier, DIFFERENT request
				// is judged like any other; the witness class names the merge
				mergedCls := ""
				if o, ok := node.MergedWith(di); ok {
					r.Count("two_node_requests_merged_by_the_bus", 1)
					if od := s.Dirs[ni][o]; od.P != d.P || od.C != d.C {
						switch {
						case od.P == d.P && (od.C == "" || d.C == ""):
							mergedCls = "merged-onto-request-with-other-context/empty-vs-non-empty"
						case od.P == d.P:
							mergedCls = "merged-onto-request-with-other-context"
						case od.C == d.C:
							mergedCls = "merged-onto-request-with-other-protocol-id"
						default:
							mergedCls = "merged-onto-request-with-other-id-and-context"
						}
					}
				}
				for li := 0; li < s.Links; li++ {
					want := s.Expected(ni, di, li)
					switch {
					case want && got[li] > 0:
						r.Count("two_node_expected_matches_seen", 1)
						if got[li] > 1 {
							r.Count("two_node_duplicate_values_same_link", got[li]-1)
						}
					case !want && got[li] == 0:
						r.Count("two_node_expected_non_matches_seen", 1)
					case !want && got[li] > 0:
						// classify by the harness' ground truth (input class of the witness)
						cls := "other"
						samePC, shiftedAdmitting := false, false
						for _, o := range s.Dirs[1-ni] {
							if o.P == d.P && o.C == d.C {
								samePC = true
							} else if o.P+o.C == d.P+d.C && s.Admits(o, li) {
								shiftedAdmitting = true
							}
						}
						for _, o := range s.Dirs[ni] { // a colliding local sibling that is matched
							if (o.P != d.P || o.C != d.C) && o.P+o.C == d.P+d.C {
								shiftedAdmitting = true
							}
						}
						// same key under a non-empty separator: a local sibling or a remote request
						sepJoined := false
						for _, o := range append(append([]DirSpec(nil), s.Dirs[ni]...), s.Dirs[1-ni]...) {
							if sp, ok := JoinCollision(o.P, o.C, d.P, d.C); ok && sp != "" {
								sepJoined = true
							}
						}
						derived := ""
						for _, o := range append(append([]DirSpec(nil), s.Dirs[ni]...), s.Dirs[1-ni]...) {
							if rule := s.derivRule(o.P, o.C, d.P, d.C); rule != "" {
								derived = rule
							}
						}
						switch {
						case mergedCls != "":
							cls = mergedCls
						case derived != "" && s.Admits(d, li) && !samePC:
							cls = "derived-pair"
						case sepJoined && !shiftedAdmitting && s.Admits(d, li):
							cls = "separator-joined-key"
							if len(s.Stages) > 1 {
								cls += "/history"
							}
						case shiftedAdmitting && s.Admits(d, li):
							cls = "boundary-shift"
						case samePC || !s.Admits(d, li):
							cls = "constraint-ignored"
						}
						r.Violation("two-node/unexpected-match/"+cls,
							"a SolicitProtocol directive received a stream although the other side has no solicitation with the same (protocol id, context) admitting this link",
							map[string]any{"scenario": s, "node": ni, "directive": d, "link": li + 1, "other_side": s.Dirs[1-ni], "same_side": s.Dirs[ni], "derivation_rule": derived})
					case want && got[li] == 0:
						if !s.MustHave(ni, di, li) {
							// dynamic scenario, directive registered after another local one
							// with the same (p,c): the hash may already have been matched
							r.Count("two_node_late_directive_without_value", 1)
							continue
						}
						if unattr > 0 {
							// a value arrived whose stream could not be identified: do not guess
							r.Count("two_node_undecided_missing", 1)
							continue
						}
						mkey := "two-node/missing-match"
						if mergedCls != "" {
							mkey += "/" + mergedCls
						} else if s.IsMany() {
							mkey = "two-node/missing-match/many-solicitations-on-the-link"
						} else if rel, _, _ := s.setChangeStats(); rel > 0 {
							mkey = "two-node/missing-match/after-solicitation-set-change"
						} else {
							for _, o := range s.Dirs[ni] {
								if sp, ok := JoinCollision(o.P, o.C, d.P, d.C); ok && sp != "" {
									mkey = "two-node/missing-match/local-sibling-with-same-separator-joined-key"
								}
							}
						}
						r.Violation(mkey,
							"both sides solicit the same (protocol id, context) and both constraints admit the link, but at quiescence the directive has no value for it",
							map[string]any{"scenario": s, "node": ni, "directive": d, "link": li + 1, "other_side": s.Dirs[1-ni], "values_at_node": len(node.Values()), "streams": len(t.Streams()), "node_is_the_lower_peer_id": (ni == 0) != s.SwapIDs})
					}
				}
			}
		}
		if sampled < 3 {
			sampled++
			r.Sample(map[string]any{"kind": "two-node", "scenario": s, "expected_matches": exp, "streams_opened": len(t.Streams())})
		}
	}
	runBatches(r, "", scens, rng, 24, eval)

	// DERIVATION block: a base request with a long context (33..4096 bytes) on one
	// node, pairs DERIVED from it (digest / encoding / truncation of the context,
	// the id's digest mixed in, ...) on the other; and the SET-CHANGE block:
	// scripted histories with releases and control-stream back-pressure.
	drng := r.Rand("c30-two-node-derivations")
	var more []*Scenario
	for k, nd := 0, r.N(42, 600); k < nd; k++ {
		more = append(more, GenDerivationScenario(drng, k, k))
	}
	crng := r.Rand("c30-two-node-set-changes")
	for k, nc := 0, r.N(54, 700); k < nc; k++ {
		more = append(more, GenChurnScenario(crng, k))
	}
	// interleave the two families so that every batch holds both
	crng.Shuffle(len(more), func(i, j int) { more[i], more[j] = more[j], more[i] })
	runBatches(r, "/derivation+set-change", more, rng, 32, eval)

	// MANY-SOLICITATIONS block (one batch in the quick tier): 200..256 requests
	// (the default limit of hashes per exchange; never more) admitted on one link on
	// one or both nodes, a few of them shared.
	mrng := r.Rand("c30-two-node-many-solicitations")
	var many []*Scenario
	for k, nm := 0, r.N(4, 48); k < nm; k++ {
		many = append(many, GenManyScenario(mrng, k))
	}
	runBatches(r, "/many-solicitations", many, rng, 4, eval)
}

// RunTwoNodeC31 is the two-node part of C31: for every physical stream end the
// number of successful accepts over all values of that node is at most one,
// and an accepted stream is never closed by a solicitation value.
func RunTwoNodeC31(r *vf.Run) {
	rng := r.Rand("c31-two-node")
	n := r.N(96, 1500)
	var scens []*Scenario
	scens = append(scens,
		// two local solicitations with equal (p,c), different peer constraints, both admit the link
		&Scenario{Links: 1, Dirs: [2][]DirSpec{{{"test/echo", "", PeerNone, TptNone}, {"test/echo", "", PeerRight, TptNone}}, {{"test/echo", "", PeerNone, TptNone}}}},
		&Scenario{Links: 2, SwapIDs: true, Dirs: [2][]DirSpec{{{"dex/v1", "bucket", PeerNone, TptLink1}, {"dex/v1", "bucket", PeerRight, TptNone}}, {{"dex/v1", "bucket", PeerNone, TptNone}, {"dex/v1", "bucket", PeerRight, TptLink2}}}},
	)
	// FAULTY STREAMS: in every third generated scenario both ends of every
	// solicited stream misbehave on Close (error always / on the first call / on
	// repeated calls / once the remote end is gone; slow Close)
	frng := r.Rand("c31-two-node-stream-faults")
	for len(scens) < n {
		sc := GenScenario(rng, true)
		if len(scens)%3 == 0 {
			sc.StreamFault = 1 + frng.IntN(NumCloseFaults-1)
		}
		scens = append(scens, sc)
	}
	// own batches: several local requests match one stream and one of their
	// resolver handlers REJECTS the value or goes away around the match (real
	// controllerbus instance close / release from inside the delivering AddValue
	// call or at stream arrival; harness ResolverHandlers answering ok=false)
	rrng := r.Rand("c31-two-node-reject")
	for k, nRej := 0, r.N(72, 1200); k < nRej; k++ {
		sc := GenRejectScenario(rrng, k)
		if k%4 == 3 {
			sc.StreamFault = 1 + frng.IntN(NumCloseFaults-1)
		}
		scens = append(scens, sc)
	}
	// accept / close plan is drawn up front so that it does not depend on arrival order
	type plan struct{ seed uint64 }
	plans := make([]plan, len(scens))
	for i := range plans {
		plans[i] = plan{rng.Uint64()}
	}
	idx := map[*Scenario]int{}
	for i, s := range scens {
		idx[s] = i
	}
	verifhook.SetPoint("solicit.accept.gap", nil)
	sampled := 0
	runBatches(r, "", scens, rng, 24, func(it *batchItem) {
		s, t := it.scen, it.t
		prng := rand.New(rand.NewPCG(plans[idx[s]].seed, 31))
		fprng := rand.New(rand.NewPCG(plans[idx[s]].seed, 3131))
		if s.StreamFault != 0 {
			r.Count("two_node_scenarios_with_faulty_solicited_streams_"+CloseFaultNames[s.StreamFault], 1)
		}
		multi := 0
		for ni := 0; ni < 2; ni++ {
			node := t.Nodes[ni]
			vals := node.Values()
			r.Count("two_node_values_delivered", len(vals))
			// concurrent accept / close phase over ALL values of the node
			type res struct {
				val      int
				op       string
				ms       link.MountedStream
				closed   bool
				closesAt int // Close count of the stream end when the accept returned it
			}
			var mu sync.Mutex
			var results []res
			start := make(chan struct{})
			var wg sync.WaitGroup
			for vi, v := range vals {
				ops := []string{"accept"}
				switch prng.IntN(6) {
				case 0:
					ops = []string{"close", "accept"}
				case 1:
					ops = []string{"accept", "close"}
				case 2:
					ops = []string{"accept", "accept"}
				}
				if s.StreamFault != 0 {
					// faulty streams: more closes, and closes that have RETURNED before
					// the accept of the same value is called (one goroutine: "close;accept")
					switch fprng.IntN(6) {
					case 0:
						ops = []string{"close;accept"}
					case 1:
						ops = []string{"close;accept", "accept"}
					case 2:
						ops = []string{"close", "accept"}
					case 3:
						ops = []string{"close", "close;accept"}
					}
				}
				for _, op := range ops {
					wg.Add(1)
					go func(vi int, v RecvValue, op string) {
						defer wg.Done()
						<-start
						var x res
						x.val, x.op = vi, op
						if op == "close;accept" {
							if c, ok := v.Val.(interface{ Close() bool }); ok {
								x.closed = c.Close()
							}
							mu.Lock()
							results = append(results, res{val: vi, op: "close", closed: x.closed})
							mu.Unlock()
							x.op, op = "accept", "accept"
						}
						if op == "accept" {
							ms, _, err := v.Val.AcceptMountedStream()
							if err == nil {
								x.ms = ms
								if f, ok := ms.(*FakeMountedStream); ok && f != nil {
									x.closesAt = f.Strm.Closes()
								}
							}
						} else if c, ok := v.Val.(interface{ Close() bool }); ok {
							x.closed = c.Close()
						}
						mu.Lock()
						results = append(results, x)
						mu.Unlock()
					}(vi, v, op)
				}
			}
			close(start)
			wg.Wait()
			owners := map[*StreamRec][]int{} // stream -> values whose accept returned it
			closedAtAccept := map[*StreamRec]int{}
			// accepts made by the consumers inside the delivering AddValue call
			for vi, v := range vals {
				if v.EarlyMS != nil {
					r.Count("two_node_accept_calls_inside_value_delivery", 1)
					if rec, _ := t.StreamOf(v.EarlyMS); rec != nil {
						owners[rec] = append(owners[rec], vi)
						closedAtAccept[rec] += v.EarlyCloses
					}
				}
			}
			for _, x := range results {
				if x.op == "accept" {
					r.Count("two_node_accept_calls", 1)
					if x.ms != nil {
						rec, _ := t.StreamOf(x.ms)
						if rec != nil {
							owners[rec] = append(owners[rec], x.val)
							closedAtAccept[rec] += x.closesAt
						}
					}
				} else {
					r.Count("two_node_close_calls", 1)
				}
			}
			for rec, ow := range owners {
				end := 0
				if rec.Opener != ni {
					end = 1
				}
				sort.Ints(ow)
				if len(ow) > 1 {
					cls := "same-protocol-and-context"
					d0 := s.Dirs[ni][vals[ow[0]].Dir]
					for _, o := range ow[1:] {
						d := s.Dirs[ni][vals[o].Dir]
						if d.P != d0.P || d.C != d0.C {
							cls = "colliding-hash"
						}
					}
					var dirs []DirSpec
					for _, o := range ow {
						dirs = append(dirs, s.Dirs[ni][vals[o].Dir])
					}
					r.Violation("two-node/multiple-owners/"+cls,
						fmt.Sprintf("one physical stream was handed to %d accepting callers on the same node", len(ow)),
						map[string]any{"scenario": s, "node": ni, "stream_protocol": string(rec.Proto), "link": rec.Link + 1, "owning_directives": dirs})
				}
				if c := rec.Ends[end].Closes(); c > 0 {
					var dirs []DirSpec
					var modes []string
					for _, o := range ow {
						dirs = append(dirs, s.Dirs[ni][vals[o].Dir])
						modes = append(modes, modeNames[s.Mode(ni, vals[o].Dir)])
					}
					wit := map[string]any{"scenario": s, "node": ni, "stream_protocol": string(rec.Proto), "closes": c, "owners": len(ow),
						"owning_directives": dirs, "owner_modes": modes, "closes_seen_when_the_accept_returned_the_stream": closedAtAccept[rec],
						"solicited_stream_close_behaviour": CloseFaultNames[s.StreamFault],
						"add_value_rejections_by_harness_handlers_on_node": node.Rejected.Load(), "sibling_instances_closed_by_consumers_on_node": node.SiblingCloses.Load(), "instances_closed_at_stream_arrival_on_node": node.GoneCloses.Load()}
					if s.Note != "" {
						r.Count("two_node_accepted_streams_closed_in_"+s.Note, 1)
					}
					if closedAtAccept[rec] > 0 {
						r.Violation("two-node/closed-stream-handed-over",
							"an accept returned a stream that had already been closed on this node (nobody but the solicitation machinery closes an unaccepted stream)", wit)
					} else {
						r.Violation("two-node/accepted-stream-closed",
							"a stream that was accepted by a caller was closed through a solicitation value", wit)
					}
				}
				r.Count("two_node_streams_accepted", 1)
			}
			// count of directives on this node that were expected to share a stream
			for li := 0; li < s.Links; li++ {
				groups := map[string]int{}
				for di, d := range s.Dirs[ni] {
					if s.Expected(ni, di, li) {
						groups[d.P+"\x00|"+d.C]++
					}
				}
				for _, c := range groups {
					if c > 1 {
						multi++
					}
				}
			}
		}
		r.Case("2n|"+s.Sig(), multi > 0)
		r.Count("two_node_scenarios", 1)
		if s.Note != "" {
			r.Count("two_node_scenarios_"+s.Note, 1)
		}
		for ni := 0; ni < 2; ni++ {
			r.Count("two_node_add_value_rejected_by_harness_resolver_handler", int(t.Nodes[ni].Rejected.Load()))
			r.Count("two_node_sibling_instances_closed_inside_value_delivery", int(t.Nodes[ni].SiblingCloses.Load()))
			r.Count("two_node_instances_closed_at_stream_arrival", int(t.Nodes[ni].GoneCloses.Load()))
		}
		r.Count("two_node_streams_with_several_matching_directives", multi)
		if sampled < 2 && multi > 0 {
			sampled++
			r.Sample(map[string]any{"kind": "two-node", "scenario": s, "streams_with_several_matching_local_directives": multi})
		}
	})
}
