package g10sol

import (
	"fmt"
	"math/rand/v2"
)

// churnBuilder assembles a scripted history.
type churnBuilder struct {
	s   *Scenario
	rng *rand.Rand
	ctr int
}

func (b *churnBuilder) fresh() string {
	b.ctr++
	return fmt.Sprintf("bucket-%d", b.ctr)
}

// req appends a request to node n and returns its index.
func (b *churnBuilder) req(n int, p, c string, pc, tc, mode int) int {
	b.s.Dirs[n] = append(b.s.Dirs[n], DirSpec{p, c, pc, tc})
	for len(b.s.Modes[n]) < len(b.s.Dirs[n])-1 {
		b.s.Modes[n] = append(b.s.Modes[n], ModeRecord)
	}
	b.s.Modes[n] = append(b.s.Modes[n], mode)
	return len(b.s.Dirs[n]) - 1
}

func (b *churnBuilder) step(op string, n, di, via int) {
	b.s.Script = append(b.s.Script, Step{Op: op, Node: n, Dir: di, Via: via})
	if op == OpAdd {
		b.s.Order = append(b.s.Order, [2]int{n, di})
	}
}
func (b *churnBuilder) add(n, di int)     { b.step(OpAdd, n, di, 0) }
func (b *churnBuilder) q()                { b.step(OpQuiesce, 0, 0, 0) }
func (b *churnBuilder) stall(n int)       { b.step(OpStall, n, 0, 0) }
func (b *churnBuilder) unstall(n int)     { b.step(OpUnstall, n, 0, 0) }
func (b *churnBuilder) awaitStall(n int)  { b.step(OpAwaitStalled, n, 0, 0) }
func (b *churnBuilder) release(n, di int) { b.step(OpRelease, n, di, b.rng.IntN(2)) }

// relMode draws how a request that will be released is registered: directly
// with the controller (deterministic release) or through the bus.
func (b *churnBuilder) relMode() int {
	if b.rng.IntN(2) == 0 {
		return ModeDirect
	}
	return ModeRecord
}

// settleRelease: after bus releases the controller drops the solicitation
// asynchronously; two histories in three wait for quiescence (the back-pressure
// stays on), the third goes on at once (changes issued back to back).
func (b *churnBuilder) settleRelease(anyBus bool) {
	if anyBus && b.rng.IntN(3) != 0 {
		b.q()
	}
}

// ChurnPatterns names the set-change histories of GenChurnScenario.
var ChurnPatterns = [...]string{"replace-one-under-backpressure", "replace-subset-under-backpressure", "replace-back-to-back", "withdraw-then-add-under-backpressure", "re-add-same-pair", "both-sides-switch", "replace-all-under-backpressure"}

// GenChurnScenario draws a scripted history in which the solicitation SET of a
// node changes on a live link (links and control streams are up and quiescent
// first): requests are withdrawn and others added - same set size, subsets,
// everything, the same pair again - while the node's control stream is under
// back-pressure (its control loop parked inside the send of the previous set)
// or back to back without any quiescence in between; X is the changing node,
// and SwapIDs decides whether X is the lower (stream-opening) or the higher
// peer id. The other node Y solicits the new pairs before or after the change,
// plus near misses (same id, other context). pattern selects the history (see
// ChurnPatterns). Fresh contexts are used for every new request, so that the
// oracle's "first request ever for the pair" rule applies to the requests that
// matter (see scriptMustHave).
func GenChurnScenario(rng *rand.Rand, pattern int) *Scenario {
	pattern %= len(ChurnPatterns)
	s := &Scenario{Links: 1, SwapIDs: rng.IntN(2) == 0, Dynamic: true, Note: "set-change/" + ChurnPatterns[pattern]}
	if rng.IntN(5) == 0 {
		s.Links = 2
	}
	b := &churnBuilder{s: s, rng: rng}
	x := rng.IntN(2)
	y := 1 - x
	p := []string{"dex/sync", "test/echo", "pubsub/topic"}[rng.IntN(3)]
	cons := func() (int, int) {
		if rng.IntN(5) == 0 {
			if s.Links == 2 && rng.IntN(2) == 0 {
				return PeerNone, TptLink1
			}
			return PeerRight, TptNone
		}
		return PeerNone, TptNone
	}
	// Y's counterpart of a pair: registered at once ("early") or deferred to the
	// end of the history ("late")
	var late []int
	counterpart := func(c string) {
		pc, tc := cons()
		di := b.req(y, p, c, pc, tc, ModeRecord)
		if rng.IntN(2) == 0 {
			b.add(y, di)
		} else {
			late = append(late, di)
		}
	}
	nearMiss := func(c string) {
		di := b.req(y, p, c+"x", PeerNone, TptNone, ModeRecord)
		late = append(late, di)
	}
	switch pattern {
	case 0, 3:
		// X solicits c1 while its control stream is stalled (the loop parks in the
		// send), then replaces c1 by c2 (0: add first, 3: withdraw first)
		c1, c2 := b.fresh(), b.fresh()
		pc, tc := cons()
		m := b.relMode()
		old := b.req(x, p, c1, pc, tc, m)
		nu := b.req(x, p, c2, pc, tc, ModeRecord)
		if rng.IntN(2) == 0 {
			counterpart(c1)
		}
		counterpart(c2)
		nearMiss(c2)
		b.stall(x)
		b.add(x, old)
		b.awaitStall(x)
		if pattern == 0 {
			b.add(x, nu)
			b.release(x, old)
		} else {
			b.release(x, old)
			b.settleRelease(m != ModeDirect)
			b.add(x, nu)
		}
		b.settleRelease(m != ModeDirect)
		b.unstall(x)
	case 1, 6:
		// X holds k requests that have been advertised; one more is added under a
		// stall (the loop parks sending k+1 hashes); then j of the old ones are
		// replaced by j new ones (1: a subset, 6: all of them) and the stall ends
		k := 2 + rng.IntN(2)
		var olds []int
		var modes []int
		for i := 0; i < k; i++ {
			c := b.fresh()
			pc, tc := cons()
			m := b.relMode()
			di := b.req(x, p, c, pc, tc, m)
			olds, modes = append(olds, di), append(modes, m)
			if rng.IntN(2) == 0 {
				counterpart(c)
			}
			b.add(x, di)
		}
		b.q()
		extra := b.req(x, p, b.fresh(), PeerNone, TptNone, ModeRecord)
		j := 1 + rng.IntN(k)
		if pattern == 6 {
			j = k
		}
		b.stall(x)
		b.add(x, extra)
		b.awaitStall(x)
		anyBus := false
		perm := rng.Perm(k)
		for i := 0; i < j; i++ {
			c := b.fresh()
			pc, tc := cons()
			nu := b.req(x, p, c, pc, tc, ModeRecord)
			counterpart(c)
			if i == 0 {
				nearMiss(c)
			}
			o := olds[perm[i]]
			anyBus = anyBus || modes[perm[i]] != ModeDirect
			if rng.IntN(2) == 0 {
				b.add(x, nu)
				b.release(x, o)
			} else {
				b.release(x, o)
				b.add(x, nu)
			}
		}
		b.settleRelease(anyBus)
		b.unstall(x)
	case 2:
		// no back-pressure: c1 advertised, then c2 added and c1 withdrawn back to
		// back (the two wake-ups of the control loop may coalesce), several rounds
		c := b.fresh()
		pc, tc := cons()
		cur := b.req(x, p, c, pc, tc, b.relMode())
		b.add(x, cur)
		if rng.IntN(2) == 0 {
			b.q()
		}
		for round, nr := 0, 1+rng.IntN(3); round < nr; round++ {
			c2 := b.fresh()
			m := ModeRecord
			if round < nr-1 {
				m = b.relMode()
			}
			nu := b.req(x, p, c2, pc, tc, m)
			if round == nr-1 || rng.IntN(3) == 0 {
				counterpart(c2)
			}
			if rng.IntN(2) == 0 {
				b.add(x, nu)
				b.release(x, cur)
			} else {
				b.release(x, cur)
				b.add(x, nu)
			}
			cur = nu
		}
		nearMiss(s.Dirs[x][cur].C)
	case 4:
		// the same pair again: c1 and c2 advertised; under a stall c1 is withdrawn
		// and solicited again by a NEW request (other peer constraint), c2 replaced
		// by c3. The re-added pair is judged in the only-if direction only.
		c1, c2, c3 := b.fresh(), b.fresh(), b.fresh()
		m1, m2 := b.relMode(), b.relMode()
		a1 := b.req(x, p, c1, PeerNone, TptNone, m1)
		a2 := b.req(x, p, c2, PeerNone, TptNone, m2)
		counterpart(c1)
		counterpart(c3)
		nearMiss(c3)
		b.add(x, a1)
		b.add(x, a2)
		b.q()
		trigger := b.req(x, p, b.fresh(), PeerNone, TptNone, ModeRecord)
		b.stall(x)
		b.add(x, trigger)
		b.awaitStall(x)
		again := b.req(x, p, c1, PeerRight, TptNone, ModeRecord)
		a3 := b.req(x, p, c3, PeerNone, TptNone, ModeRecord)
		b.release(x, a1)
		b.add(x, again)
		b.add(x, a3)
		b.release(x, a2)
		b.settleRelease(m1 != ModeDirect || m2 != ModeDirect)
		b.unstall(x)
	case 5:
		// both nodes switch from c1 to c2 under back-pressure on both control
		// streams; at the end both solicit c2 (and only c2)
		c1, c2 := b.fresh(), b.fresh()
		mx, my := b.relMode(), b.relMode()
		ox := b.req(x, p, c1, PeerNone, TptNone, mx)
		oy := b.req(y, p, c1, PeerNone, TptNone, my)
		nx := b.req(x, p, c2, PeerNone, TptNone, ModeRecord)
		ny := b.req(y, p, c2, PeerNone, TptNone, ModeRecord)
		nearMiss(c2)
		both := rng.IntN(2) == 0
		b.stall(x)
		if both {
			b.stall(y)
		}
		b.add(x, ox)
		b.awaitStall(x)
		b.add(y, oy)
		if both {
			b.awaitStall(y)
		}
		b.add(x, nx)
		b.release(x, ox)
		b.add(y, ny)
		b.release(y, oy)
		b.settleRelease(mx != ModeDirect || my != ModeDirect)
		if rng.IntN(2) == 0 {
			b.unstall(x)
			if both {
				b.unstall(y)
			}
		} else {
			if both {
				b.unstall(y)
			}
			b.unstall(x)
		}
	}
	// the late remote requests, after the change (one time in two after a
	// quiescence: the changed set has been advertised / not advertised before
	// the counterpart appears)
	if len(late) > 0 {
		if rng.IntN(2) == 0 {
			b.q()
		}
		for _, di := range late {
			b.add(y, di)
		}
	}
	for n := 0; n < 2; n++ {
		for len(s.Modes[n]) < len(s.Dirs[n]) {
			s.Modes[n] = append(s.Modes[n], ModeRecord)
		}
	}
	return s
}

// setChangeStats: releases, stalls of a scripted history (evidence).
func (s *Scenario) setChangeStats() (releases, stalls, quiesces int) {
	for _, st := range s.Script {
		switch st.Op {
		case OpRelease:
			releases++
		case OpStall:
			stalls++
		case OpQuiesce:
			quiesces++
		}
	}
	return
}
