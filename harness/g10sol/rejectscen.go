package g10sol

import "math/rand/v2"

// GenRejectScenario draws a scenario for the "a matching resolver rejects or
// goes away around the match" class (C31): one node holds 2-3 requests with the
// SAME (protocol id, context) and different, link-admitting constraints, the
// other node solicits that pair, so one physical stream matches all of them.
// pattern selects how the consumers / resolver handlers of the group behave:
//
//	0: every consumer accepts inside the delivering AddValue call and closes the
//	   bus instances of its siblings (Instance.Close): whichever request the
//	   controller serves first owns the stream, the others' resolvers are
//	   cancelled by controllerbus while the match is still being resolved
//	1: the same through Reference.Release + CloseIfUnreferenced
//	2: one request is registered directly with the controller with a harness
//	   ResolverHandler that rejects every value; the others accept (inside
//	   AddValue or later)
//	3: two links; one harness ResolverHandler with a hard cap of one value (the
//	   second link's stream is rejected), the others accept
//	4: one bus request is closed by the harness when the solicited stream arrives
//	   at its node (synchronously, before the controller resolves the match)
//	5: the same from a free-running goroutine
//	6: one consumer accepts + closes siblings, the others only record
//
// One scenario in three is dynamic: links first, the group, quiescence, then the
// remote request (the solicitation arrives while everything local is in place).
func GenRejectScenario(rng *rand.Rand, pattern int) *Scenario {
	pattern %= 7
	s := &Scenario{Links: 1 + rng.IntN(2), SwapIDs: rng.IntN(2) == 0,
		Note: "reject/" + [...]string{"accept+close-siblings", "accept+release-siblings", "fake-reject", "fake-cap1", "gone-at-stream", "gone-at-stream-async", "one-closer"}[pattern]}
	if pattern == 3 {
		s.Links = 2
	}
	x := pickPC(rng)
	n := rng.IntN(2)
	// admitting constraint combinations (distinct, so the bus keeps them apart)
	cands := [][2]int{{PeerNone, TptNone}, {PeerRight, TptNone}}
	if transportDistinguished() {
		cands = append(cands, [2]int{PeerNone, TptLink1}, [2]int{PeerRight, TptLink1})
		if s.Links == 2 {
			cands = append(cands, [2]int{PeerNone, TptLink2})
		}
	}
	rng.Shuffle(len(cands), func(i, j int) { cands[i], cands[j] = cands[j], cands[i] })
	k := 2
	if len(cands) > 2 && rng.IntN(3) == 0 {
		k = 3
	}
	if pattern == 3 {
		// the capped request must see both links' streams: no transport constraint
		for i, c := range cands {
			if c[1] == TptNone {
				cands[0], cands[i] = cands[i], cands[0]
				break
			}
		}
	}
	live := []int{ModeRecord, ModeAcceptNow, ModeAcceptNow}
	for i := 0; i < k; i++ {
		s.Dirs[n] = append(s.Dirs[n], DirSpec{x.p, x.c, cands[i][0], cands[i][1]})
		m := live[rng.IntN(len(live))]
		switch pattern {
		case 0:
			m = ModeAcceptCloseSiblings
		case 1:
			m = ModeAcceptReleaseSiblings
		case 2:
			if i == 0 {
				m = ModeFakeReject
			}
		case 3:
			if i == 0 {
				m = ModeFakeCap1
			}
		case 4:
			if i == 0 {
				m = ModeGoneAtStream
			}
		case 5:
			if i == 0 {
				m = ModeGoneAtStreamAsync
			}
		case 6:
			m = ModeRecord
			if i == 0 {
				m = ModeAcceptCloseSiblings
				if rng.IntN(2) == 0 {
					m = ModeAcceptReleaseSiblings
				}
			}
		}
		s.Modes[n] = append(s.Modes[n], m)
	}
	// registration order on the node is part of the history: shuffle the group
	rng.Shuffle(k, func(i, j int) {
		s.Dirs[n][i], s.Dirs[n][j] = s.Dirs[n][j], s.Dirs[n][i]
		s.Modes[n][i], s.Modes[n][j] = s.Modes[n][j], s.Modes[n][i]
	})
	// the other node solicits the pair (one request, sometimes a second one)
	s.Dirs[1-n] = append(s.Dirs[1-n], DirSpec{x.p, x.c, PeerNone, TptNone})
	s.Modes[1-n] = append(s.Modes[1-n], live[rng.IntN(len(live))])
	if rng.IntN(3) == 0 {
		s.Dirs[1-n] = append(s.Dirs[1-n], DirSpec{x.p, x.c, PeerRight, TptNone})
		s.Modes[1-n] = append(s.Modes[1-n], live[rng.IntN(len(live))])
	}
	// an unrelated matched pair now and then
	if rng.IntN(3) == 0 {
		y := pickPC(rng)
		if y != x {
			for m := 0; m < 2; m++ {
				s.Dirs[m] = append(s.Dirs[m], DirSpec{y.p, y.c, PeerNone, TptNone})
				s.Modes[m] = append(s.Modes[m], ModeRecord)
			}
		}
	}
	if rng.IntN(3) == 0 {
		s.Dynamic = true
		var local, remote [][2]int
		for di := range s.Dirs[n] {
			local = append(local, [2]int{n, di})
		}
		for di := range s.Dirs[1-n] {
			remote = append(remote, [2]int{1 - n, di})
		}
		s.Stages = [][][2]int{local, remote}
		s.Order = append(append(s.Order, local...), remote...)
	}
	return s
}
