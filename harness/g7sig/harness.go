package g7sig

import (
	"context"
	"errors"
	"fmt"
	"io"
	"runtime"
	"sync"
	"sync/atomic"
	"time"
	"unsafe"

	"github.com/aperturerobotics/bifrost/peer"
	signaling "github.com/aperturerobotics/bifrost/signaling/rpc"
	server "github.com/aperturerobotics/bifrost/signaling/rpc/server"
	"github.com/aperturerobotics/starpc/srpc"
	"github.com/sirupsen/logrus"
)

// Item is one response the server wrote to a harness stream (outbox entry) .
type Item struct {
	Clock int64
	// Kind: "opened" "closed" "recv" "ack" "clear" (session) / "set" "unset" (listen) / "other"
	Kind string
	U    uint64                // opened epoch / ack seqno / clear seqno / recv msg seqno
	Msg  *signaling.SessionMsg // recv: clone of the forwarded message
	Peer string                // listen: peer id
}

func (i Item) String() string {
	switch i.Kind {
	case "set", "unset":
		return i.Kind + "(" + short(i.Peer) + ")"
	case "closed":
		return "closed"
	}
	return fmt.Sprintf("%s(%d)", i.Kind, i.U)
}

func short(p string) string {
	if len(p) > 6 {
		return p[len(p)-6:]
	}
	return p
}

// Sub is one request submitted by the harness on a session stream.
type Sub struct {
	Clock int64
	Req   *signaling.SessionRequest // private clone of what the harness submitted
	Wire  []byte                    // its wire encoding (what the server's stream reads)
}

// pkt is one queued request packet.
type pkt struct {
	b      []byte
	shared bool // submitted with SubmitShared: never modified by anyone
}

// Gate blocks Send on every stream of one peer while held.
type Gate struct {
	mu   sync.Mutex
	held bool
	ch   chan struct{}
}

// Hold arms the gate: the next Send on a stream of this peer blocks.
func (g *Gate) Hold() {
	g.mu.Lock()
	if !g.held {
		g.held = true
		g.ch = make(chan struct{})
	}
	g.mu.Unlock()
}

// Release opens the gate.
func (g *Gate) Release() {
	g.mu.Lock()
	if g.held {
		g.held = false
		close(g.ch)
	}
	g.mu.Unlock()
}

// Held reports whether the gate is armed.
func (g *Gate) Held() bool { g.mu.Lock(); defer g.mu.Unlock(); return g.held }

func (g *Gate) waitCh() <-chan struct{} {
	g.mu.Lock()
	defer g.mu.Unlock()
	if !g.held {
		return nil
	}
	return g.ch
}

type identKey struct{}

// Harness is one real server instance plus all calls made on it.
type Harness struct {
	Srv *server.Server
	ptr string

	// InboxCap is the capacity of the request queue of calls made from now on
	// (0 = 512). Worlds that start thousands of short calls set it low: under the
	// race detector every freshly allocated KiB costs shadow-memory work.
	InboxCap int

	clock atomic.Int64

	mu         sync.Mutex
	calls      []*Call
	unreturned int
	gates      map[string]*Gate
	outVersion int64
}

var quietLog = func() *logrus.Entry {
	l := logrus.New()
	l.SetOutput(io.Discard)
	l.SetLevel(logrus.PanicLevel)
	return logrus.NewEntry(l)
}()

// New builds a fresh server whose stream identity comes from the harness.
func New() *Harness {
	h := &Harness{gates: map[string]*Gate{}}
	h.Srv = server.NewServerWithIdentify(quietLog, func(ctx context.Context) (peer.ID, error) {
		v, _ := ctx.Value(identKey{}).(peer.ID)
		if v == "" {
			return "", errors.New("harness: stream without identity")
		}
		return v, nil
	})
	h.ptr = ptrHex(uintptr(unsafe.Pointer(h.Srv)))
	return h
}

// Tick advances and returns the logical clock.
func (h *Harness) Tick() int64 { return h.clock.Add(1) }

// Gate returns the gate shared by all streams of a peer.
func (h *Harness) Gate(pid string) *Gate {
	h.mu.Lock()
	defer h.mu.Unlock()
	g := h.gates[pid]
	if g == nil {
		g = &Gate{}
		h.gates[pid] = g
	}
	return g
}

// ReleaseAll opens every gate.
func (h *Harness) ReleaseAll() {
	h.mu.Lock()
	gs := make([]*Gate, 0, len(h.gates))
	for _, g := range h.gates {
		gs = append(gs, g)
	}
	h.mu.Unlock()
	for _, g := range gs {
		g.Release()
	}
	for _, c := range h.Calls() {
		c.Unstall()
	}
}

// AnyGateHeld reports whether some gate is armed or some call is stalled.
func (h *Harness) AnyGateHeld() bool {
	h.mu.Lock()
	cs := append([]*Call(nil), h.calls...)
	for _, g := range h.gates {
		if g.Held() {
			h.mu.Unlock()
			return true
		}
	}
	h.mu.Unlock()
	for _, c := range cs {
		if c.Stalled() {
			return true
		}
	}
	return false
}

// Call is one Session or Listen RPC running on the server.
type Call struct {
	H      *Harness
	Idx    int
	Listen bool
	Src    string // authenticated identity of the stream
	Dst    string // session: peer named in Init ("" if none was sent)

	ctx    context.Context
	cancel context.CancelFunc
	in     chan pkt // wire-encoded requests (MarshalVT at Submit)
	gate   *Gate

	StartClock int64

	mu        sync.Mutex
	out       []Item
	subs      []Sub
	killed    bool
	killClock int64
	returned  bool
	retClock  int64
	err       error
	atGate    bool
	done      chan struct{}

	// per-call stall (a stalled connection: the server's Send blocks until the
	// harness releases it, whether or not the stream was cancelled meanwhile)
	stalled  bool
	stallCh  chan struct{}
	atStall  bool
	consumed atomic.Int64 // requests the server's Recv has taken so far

	// self-destruct point of the stream (a client that disappears during the
	// start-up of the call), see StartSessionDying; "" = none
	dieAt  string
	nRecv  atomic.Int64 // Recv calls made by the server so far
	nSend  atomic.Int64 // Send calls made by the server so far
	diedAt atomic.Int64 // clock at which the stream cancelled itself (0 = not yet)
}

// DiePoints lists the points of a Session call's start-up at which a stream made
// by StartSessionDying cancels its own context (the client goes away):
//
//	before-start  the context is cancelled before the server call starts
//	recv1-pre     inside the first Recv, before the Init is read: Recv fails
//	recv1-hand    inside the first Recv, as the Init is handed over: Recv succeeds
//	              (like a real stream whose packet was already queued), the context
//	              is cancelled when the server looks at it next
//	recv2-pre     inside the second Recv (the call has registered, its read
//	              goroutine asks for the next request): Recv fails
//	send1-pre     inside the first Send (the first Opened / Closed frame): Send fails
//	send1-post    inside the first Send: the frame is delivered, then the stream dies
var DiePoints = []string{"before-start", "recv1-pre", "recv1-hand", "recv2-pre", "send1-pre", "send1-post"}

// StartSessionDying is StartSession on a stream that cancels itself at the given
// point of the call's start-up (one of DiePoints). The call counts as killed by
// the harness from that moment on.
func (h *Harness) StartSessionDying(src peer.ID, dst string, at string) *Call {
	c := h.newCall(src, false)
	c.Dst = dst
	c.dieAt = at
	c.Submit(&signaling.SessionRequest{Body: &signaling.SessionRequest_Init{Init: &signaling.SessionInit{PeerId: dst}}})
	if at == "before-start" {
		c.die()
	}
	go func() {
		err := h.Srv.Session(&SessionStream{c: c})
		c.finish(err)
	}()
	return c
}

// die cancels the stream from the inside (dying stream).
func (c *Call) die() {
	c.mu.Lock()
	if !c.killed {
		c.killed = true
		c.killClock = c.H.Tick()
		c.diedAt.Store(c.killClock)
	}
	c.mu.Unlock()
	c.cancel()
}

// Died reports whether a dying stream has reached its point and cancelled itself.
func (c *Call) Died() bool { return c.diedAt.Load() != 0 }

// DieAt returns the self-destruct point of the stream ("" = none).
func (c *Call) DieAt() string { return c.dieAt }

func (c *Call) String() string {
	if c.Listen {
		return fmt.Sprintf("#%d listen(%s)", c.Idx, short(c.Src))
	}
	return fmt.Sprintf("#%d session(%s->%s)", c.Idx, short(c.Src), short(c.Dst))
}

func (h *Harness) newCall(src peer.ID, listen bool) *Call {
	ctx, cancel := context.WithCancel(context.WithValue(context.Background(), identKey{}, src))
	icap := h.InboxCap
	if icap <= 0 {
		icap = 512
	}
	c := &Call{H: h, Listen: listen, Src: src.String(), ctx: ctx, cancel: cancel,
		in: make(chan pkt, icap), done: make(chan struct{})}
	c.gate = h.Gate(c.Src)
	h.mu.Lock()
	c.Idx = len(h.calls)
	h.calls = append(h.calls, c)
	h.unreturned++
	h.mu.Unlock()
	c.StartClock = h.Tick()
	return c
}

func (c *Call) finish(err error) {
	// like a real RPC stream: once the handler returned the stream is dead
	c.cancel()
	c.mu.Lock()
	c.returned = true
	c.err = err
	c.retClock = c.H.Tick()
	c.mu.Unlock()
	c.H.mu.Lock()
	c.H.unreturned--
	c.H.outVersion++
	c.H.mu.Unlock()
	close(c.done)
}

// StartSession starts Server.Session on a new stream authenticated as src. If
// dst != "" an honest Init{dst} (session_seqno 0) is submitted first.
func (h *Harness) StartSession(src peer.ID, dst string) *Call {
	c := h.newCall(src, false)
	c.Dst = dst
	if dst != "" {
		c.Submit(&signaling.SessionRequest{Body: &signaling.SessionRequest_Init{Init: &signaling.SessionInit{PeerId: dst}}})
	}
	go func() {
		err := h.Srv.Session(&SessionStream{c: c})
		c.finish(err)
	}()
	return c
}

// StartSessionDeferred starts Server.Session on a new stream authenticated as
// src whose client has not sent its Init{dst} yet: the server call is parked in
// its first Recv until SubmitInit. (Registration then takes only the time the
// server needs, without the start-up latency of a new call.)
func (h *Harness) StartSessionDeferred(src peer.ID, dst string) *Call {
	c := h.newCall(src, false)
	c.Dst = dst
	go func() {
		err := h.Srv.Session(&SessionStream{c: c})
		c.finish(err)
	}()
	return c
}

// SubmitInit submits the honest Init{Dst} of a call made by StartSessionDeferred.
func (c *Call) SubmitInit() int64 {
	return c.Submit(&signaling.SessionRequest{Body: &signaling.SessionRequest_Init{Init: &signaling.SessionInit{PeerId: c.Dst}}})
}

// StartListen starts Server.Listen on a new stream authenticated as src.
func (h *Harness) StartListen(src peer.ID) *Call {
	c := h.newCall(src, true)
	go func() {
		err := h.Srv.Listen(&signaling.ListenRequest{}, &ListenStream{c: c})
		c.finish(err)
	}()
	return c
}

// Submit queues a request for the server's Recv and returns its clock stamp.
// Like a real starpc client stream the request is MARSHALLED here (proto3:
// zero-valued fields are absent from the wire); the server side decodes the
// bytes with UnmarshalVT, so the server never sees a harness-owned Go object.
func (c *Call) Submit(req *signaling.SessionRequest) int64 {
	wire, err := req.MarshalVT()
	if err != nil {
		panic(fmt.Sprintf("g7sig: cannot marshal request: %v", err))
	}
	return c.SubmitWire(req, wire)
}

// SubmitWire queues raw request bytes (req, which may be nil, only documents
// them in Subs).
func (c *Call) SubmitWire(req *signaling.SessionRequest, wire []byte) int64 {
	var cp *signaling.SessionRequest
	if req != nil {
		cp = req.CloneVT()
	}
	wire = append([]byte(nil), wire...)
	c.mu.Lock()
	t := c.H.Tick()
	c.subs = append(c.subs, Sub{Clock: t, Req: cp, Wire: wire})
	c.mu.Unlock()
	select {
	case c.in <- pkt{b: wire}:
	case <-c.ctx.Done():
	}
	return t
}

// Kill ends the stream abruptly (client went away).
func (c *Call) Kill() {
	c.mu.Lock()
	if !c.killed {
		c.killed = true
		c.killClock = c.H.Tick()
	}
	c.mu.Unlock()
	c.cancel()
}

// Stall makes the call's stream a stalled connection: the next Send of the
// server on it blocks until Unstall, EVEN IF the stream is cancelled or the call
// is replaced meanwhile (a write stuck in a full socket buffer does not notice
// the cancellation). Everything else (Recv, context) behaves as before.
func (c *Call) Stall() {
	c.mu.Lock()
	if !c.stalled {
		c.stalled = true
		c.stallCh = make(chan struct{})
	}
	c.mu.Unlock()
}

// Unstall lets a stalled Send complete.
func (c *Call) Unstall() {
	c.mu.Lock()
	if c.stalled {
		c.stalled = false
		close(c.stallCh)
	}
	c.mu.Unlock()
}

// Stalled reports whether the call's stream is stalled.
func (c *Call) Stalled() bool { c.mu.Lock(); defer c.mu.Unlock(); return c.stalled }

// AtStall reports whether the server is blocked in a Send on the stalled stream.
func (c *Call) AtStall() bool { c.mu.Lock(); defer c.mu.Unlock(); return c.atStall }

// Consumed returns how many requests the server's Recv has taken (decoded) on
// this call so far, the Init included.
func (c *Call) Consumed() int64 { return c.consumed.Load() }

// Submitted returns how many requests the harness has submitted on this call.
func (c *Call) Submitted() int64 { c.mu.Lock(); defer c.mu.Unlock(); return int64(len(c.subs)) }

// SubmitShared queues a (large) request without taking private copies: req and
// wire must never be modified by the caller afterwards. The server side still
// decodes its own object from a copy of the packet.
func (c *Call) SubmitShared(req *signaling.SessionRequest, wire []byte) int64 {
	c.mu.Lock()
	t := c.H.Tick()
	c.subs = append(c.subs, Sub{Clock: t, Req: req, Wire: wire})
	c.mu.Unlock()
	select {
	case c.in <- pkt{b: wire, shared: true}:
	case <-c.ctx.Done():
	}
	return t
}

// Killed reports whether the harness killed the stream.
func (c *Call) Killed() bool { c.mu.Lock(); defer c.mu.Unlock(); return c.killed }

// Returned reports whether the server call has returned, and its error.
func (c *Call) Returned() (bool, error) { c.mu.Lock(); defer c.mu.Unlock(); return c.returned, c.err }

// AtGate reports whether the server's write loop is blocked in Send at the gate.
func (c *Call) AtGate() bool { c.mu.Lock(); defer c.mu.Unlock(); return c.atGate }

// Outbox returns a copy of everything the server wrote so far.
func (c *Call) Outbox() []Item {
	c.mu.Lock()
	defer c.mu.Unlock()
	return append([]Item(nil), c.out...)
}

// OutboxFrom returns a copy of what the server wrote from item i on.
func (c *Call) OutboxFrom(i int) []Item {
	c.mu.Lock()
	defer c.mu.Unlock()
	if i >= len(c.out) {
		return nil
	}
	return append([]Item(nil), c.out[i:]...)
}

// Subs returns a copy of everything submitted so far.
func (c *Call) Subs() []Sub { c.mu.Lock(); defer c.mu.Unlock(); return append([]Sub(nil), c.subs...) }

// OutStrings renders the outbox.
func (c *Call) OutStrings() []string {
	o := c.Outbox()
	r := make([]string, len(o))
	for i, it := range o {
		r[i] = it.String()
	}
	return r
}

// LastOpen returns the last Opened/Closed item: ("opened", e) / ("closed", 0) / ("", 0).
func (c *Call) LastOpen() (string, uint64) {
	o := c.Outbox()
	for i := len(o) - 1; i >= 0; i-- {
		if o[i].Kind == "opened" || o[i].Kind == "closed" {
			return o[i].Kind, o[i].U
		}
	}
	return "", 0
}

// send is the common part of the fake streams' Send.
func (c *Call) send(it Item) error {
	c.mu.Lock()
	var st chan struct{}
	if c.stalled {
		st = c.stallCh
		c.atStall = true
	}
	c.mu.Unlock()
	if st != nil {
		<-st // not even a cancellation ends a stalled write
		c.mu.Lock()
		c.atStall = false
		c.mu.Unlock()
	}
	if err := c.ctx.Err(); err != nil {
		return err
	}
	if w := c.gate.waitCh(); w != nil {
		c.mu.Lock()
		c.atGate = true
		c.mu.Unlock()
		select {
		case <-w:
		case <-c.ctx.Done():
		}
		c.mu.Lock()
		c.atGate = false
		c.mu.Unlock()
		if err := c.ctx.Err(); err != nil {
			return err
		}
	}
	c.mu.Lock()
	it.Clock = c.H.Tick()
	c.out = append(c.out, it)
	c.mu.Unlock()
	c.H.mu.Lock()
	c.H.outVersion++
	c.H.mu.Unlock()
	return nil
}

// SessionStream is the hand-written signaling.SRPCSignaling_SessionStream.
type SessionStream struct{ c *Call }

func (s *SessionStream) Context() context.Context { return s.c.ctx }

// readOne returns the next wire-encoded request.
func (s *SessionStream) readOne() (pkt, error) {
	// a dead stream fails even if requests are still queued
	if err := s.c.ctx.Err(); err != nil {
		return pkt{}, err
	}
	select {
	case b := <-s.c.in:
		return b, nil
	case <-s.c.ctx.Done():
		return pkt{}, s.c.ctx.Err()
	}
}

// Recv / RecvTo / MsgRecv behave exactly like the generated starpc server
// stream over srpc.MsgStream: Recv allocates a fresh object, RecvTo and MsgRecv
// UnmarshalVT the packet INTO the object the caller passes (no Reset: the VT
// unmarshal merges, fields absent from the wire keep their previous value).
func (s *SessionStream) Recv() (*signaling.SessionRequest, error) {
	m := new(signaling.SessionRequest)
	if err := s.MsgRecv(m); err != nil {
		return nil, err
	}
	return m, nil
}
func (s *SessionStream) RecvTo(m *signaling.SessionRequest) error { return s.MsgRecv(m) }
func (s *SessionStream) MsgRecv(msg srpc.Message) error {
	hand := false
	if at := s.c.dieAt; at != "" {
		switch n := s.c.nRecv.Add(1); {
		case n == 1 && at == "recv1-pre", n == 2 && at == "recv2-pre":
			s.c.die()
		case n == 1 && at == "recv1-hand":
			hand = true
		}
	}
	var p pkt
	var err error
	if hand {
		// the Init was queued before the call started: take it, then die
		p = <-s.c.in
		s.c.die()
	} else if p, err = s.readOne(); err != nil {
		return err
	}
	// the packet buffer belongs to the reader from here on (as with a real
	// stream); the harness keeps its own copy in Subs. (A SubmitShared packet is
	// decoded in place: the generated UnmarshalVT copies every bytes field, and
	// an extra copy of a multi-MiB buffer is very expensive under the race
	// detector.)
	b := p.b
	if !p.shared {
		b = append([]byte(nil), b...)
	}
	err = msg.UnmarshalVT(b)
	s.c.consumed.Add(1)
	return err
}

// Send / MsgSend marshal what the server sends (at the moment of the call, as
// the real stream does) and record the DECODED copy: nothing in the outbox
// aliases a server-side object.
func (s *SessionStream) Send(m *signaling.SessionResponse) error { return s.MsgSend(m) }
func (s *SessionStream) MsgSend(msg srpc.Message) error {
	post := false
	if at := s.c.dieAt; at != "" {
		switch n := s.c.nSend.Add(1); {
		case n == 1 && at == "send1-pre":
			s.c.die()
		case n == 1 && at == "send1-post":
			post = true
		}
	}
	if post {
		defer s.c.die()
	}
	if err := s.c.ctx.Err(); err != nil {
		return context.Canceled
	}
	data, err := msg.MarshalVT()
	if err != nil {
		return err
	}
	m := new(signaling.SessionResponse)
	if err := m.UnmarshalVT(data); err != nil {
		return fmt.Errorf("harness: server sent an undecodable response: %w", err)
	}
	it := Item{Kind: "other"}
	switch b := m.GetBody().(type) {
	case *signaling.SessionResponse_Opened:
		it = Item{Kind: "opened", U: b.Opened}
	case *signaling.SessionResponse_Closed:
		it = Item{Kind: "closed"}
	case *signaling.SessionResponse_RecvMsg:
		it = Item{Kind: "recv", U: b.RecvMsg.GetSeqno(), Msg: b.RecvMsg}
	case *signaling.SessionResponse_AckMsg:
		it = Item{Kind: "ack", U: b.AckMsg}
	case *signaling.SessionResponse_ClearMsg:
		it = Item{Kind: "clear", U: b.ClearMsg}
	}
	return s.c.send(it)
}
func (s *SessionStream) SendAndClose(m *signaling.SessionResponse) error { return s.Send(m) }
func (s *SessionStream) CloseSend() error                                { return nil }
func (s *SessionStream) Close() error                                    { s.c.cancel(); return nil }

// ListenStream is the hand-written signaling.SRPCSignaling_ListenStream.
type ListenStream struct{ c *Call }

func (s *ListenStream) Context() context.Context               { return s.c.ctx }
func (s *ListenStream) Send(m *signaling.ListenResponse) error { return s.MsgSend(m) }
func (s *ListenStream) MsgSend(msg srpc.Message) error {
	if err := s.c.ctx.Err(); err != nil {
		return context.Canceled
	}
	data, err := msg.MarshalVT()
	if err != nil {
		return err
	}
	m := new(signaling.ListenResponse)
	if err := m.UnmarshalVT(data); err != nil {
		return fmt.Errorf("harness: server sent an undecodable response: %w", err)
	}
	it := Item{Kind: "other"}
	switch b := m.GetBody().(type) {
	case *signaling.ListenResponse_SetPeer:
		it = Item{Kind: "set", Peer: b.SetPeer}
	case *signaling.ListenResponse_ClearPeer:
		it = Item{Kind: "unset", Peer: b.ClearPeer}
	}
	return s.c.send(it)
}
func (s *ListenStream) SendAndClose(m *signaling.ListenResponse) error { return s.Send(m) }
func (s *ListenStream) MsgRecv(msg srpc.Message) error {
	return errors.New("harness: MsgRecv not used by the server")
}
func (s *ListenStream) CloseSend() error { return nil }
func (s *ListenStream) Close() error     { s.c.cancel(); return nil }

var (
	_ signaling.SRPCSignaling_SessionStream = (*SessionStream)(nil)
	_ signaling.SRPCSignaling_ListenStream  = (*ListenStream)(nil)
)

// Calls returns all calls made so far.
func (h *Harness) Calls() []*Call {
	h.mu.Lock()
	defer h.mu.Unlock()
	return append([]*Call(nil), h.calls...)
}

func (h *Harness) counters() (unreturned int, outVersion int64, inboxEmpty bool) {
	h.mu.Lock()
	unreturned, outVersion = h.unreturned, h.outVersion
	cs := append([]*Call(nil), h.calls...)
	h.mu.Unlock()
	inboxEmpty = true
	for _, c := range cs {
		if r, _ := c.Returned(); r {
			continue
		}
		if len(c.in) != 0 {
			inboxEmpty = false
		}
	}
	return
}

// QuiesceStats is filled by Quiesce (evidence).
type QuiesceStats struct {
	Polls atomic.Int64
	Waits atomic.Int64
}

// Stats is the process-wide quiescence accounting.
var Stats QuiesceStats

// Watchdog is the generous wall-clock bound after which a wait is declared
// inconclusive (never a verdict).
var Watchdog = 45 * time.Second

// Quiesce waits until the server instance is quiescent: every request the
// harness submitted on a still-running call has been consumed, every goroutine
// running server code for this instance (write loops, read goroutines, listen
// loops) is parked in select / chan receive (possibly at a harness gate), the
// number of such main goroutines equals the number of calls that have not
// returned, and the harness-side counters (calls returned, outbox length) did
// not move across two consecutive stop-the-world snapshots. Returns false if
// the watchdog expired (inconclusive).
func (h *Harness) Quiesce() (ok bool, why string) {
	Stats.Waits.Add(1)
	start := time.Now()
	good := 0
	var lastVer int64 = -1
	var lastUn = -1
	for i := 0; ; i++ {
		Stats.Polls.Add(1)
		un, ver, empty := h.counters()
		why = ""
		if !empty {
			why = "inbox not drained"
		} else {
			s := snapAfterNow()
			in := s.bySrv[h.ptr]
			if in == nil {
				in = &srvInfo{}
			}
			un2, ver2, empty2 := h.counters()
			switch {
			case s.unattributed != 0:
				why = "orphan server goroutine somewhere"
			case in.notParked != 0:
				why = fmt.Sprintf("server goroutine not parked %v", in.states)
			case in.mains != un:
				why = fmt.Sprintf("%d server calls in snapshot, %d unreturned", in.mains, un)
			case un2 != un || ver2 != ver || !empty2:
				why = "counters moved"
			}
		}
		if why == "" && (good == 0 || (lastVer == ver && lastUn == un)) {
			good++
			lastVer, lastUn = ver, un
			if good >= 2 {
				return true, ""
			}
			continue
		}
		if why == "" {
			good = 1
			lastVer, lastUn = ver, un
			continue
		}
		good = 0
		if time.Since(start) > Watchdog {
			return false, why
		}
		if i < 20 {
			runtime.Gosched()
		} else {
			time.Sleep(200 * time.Microsecond)
		}
	}
}

// EndAll kills every call and waits for them to return.
func (h *Harness) EndAll() bool {
	h.ReleaseAll()
	for _, c := range h.Calls() {
		c.Kill()
	}
	for _, c := range h.Calls() {
		select {
		case <-c.done:
		case <-time.After(Watchdog):
			return false
		}
	}
	return true
}

// WaitReturned waits for one call to return (watchdog => false).
func (c *Call) WaitReturned() bool {
	select {
	case <-c.done:
		return true
	case <-time.After(Watchdog):
		return false
	}
}
