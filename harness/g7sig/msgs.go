package g7sig

import (
	"fmt"

	"github.com/aperturerobotics/bifrost/hash"
	"github.com/aperturerobotics/bifrost/peer"
	signaling "github.com/aperturerobotics/bifrost/signaling/rpc"
	"verifharness/keys"
)

// SignalingContext is the signing context of signaling session messages
// (copied from the wire format documentation in signaling/rpc/signaling.go).
const SignalingContext = "bifrost/signaling/rpc session msg 2024-06-05T02:45:07.208906Z"

// Honest builds a session message signed by id under the signaling context.
func Honest(id *keys.Identity, payload []byte, seqno uint64) *signaling.SessionMsg {
	m, err := signaling.NewSessionMsg(id.Priv, hash.HashType_HashType_BLAKE3, payload, seqno)
	if err != nil {
		panic(err)
	}
	return m
}

// HonestHash is Honest with a chosen hash type (the signer's choice).
func HonestHash(id *keys.Identity, ht hash.HashType, payload []byte, seqno uint64) *signaling.SessionMsg {
	m, err := signaling.NewSessionMsg(id.Priv, ht, payload, seqno)
	if err != nil {
		panic(err)
	}
	return m
}

// OtherContext builds a message correctly signed by id but under a different
// signing context (not a signaling message).
func OtherContext(id *keys.Identity, payload []byte, seqno uint64) *signaling.SessionMsg {
	sm, err := peer.NewSignedMsg("verif/not the signaling context 2026-01-01", id.Priv, hash.HashType_HashType_BLAKE3, payload)
	if err != nil {
		panic(err)
	}
	return &signaling.SessionMsg{SignedMsg: sm, Seqno: seqno}
}

// ReqSend wraps a message into a SendMsg request.
func ReqSend(sessSeqno uint64, m *signaling.SessionMsg) *signaling.SessionRequest {
	return &signaling.SessionRequest{SessionSeqno: sessSeqno, Body: &signaling.SessionRequest_SendMsg{SendMsg: m}}
}

// ReqAck builds an AckMsg request.
func ReqAck(sessSeqno, seq uint64) *signaling.SessionRequest {
	return &signaling.SessionRequest{SessionSeqno: sessSeqno, Body: &signaling.SessionRequest_AckMsg{AckMsg: seq}}
}

// ReqClear builds a ClearMsg request.
func ReqClear(sessSeqno, seq uint64) *signaling.SessionRequest {
	return &signaling.SessionRequest{SessionSeqno: sessSeqno, Body: &signaling.SessionRequest_ClearMsg{ClearMsg: seq}}
}

// ReqInit builds an Init request.
func ReqInit(sessSeqno uint64, dst string) *signaling.SessionRequest {
	return &signaling.SessionRequest{SessionSeqno: sessSeqno, Body: &signaling.SessionRequest_Init{Init: &signaling.SessionInit{PeerId: dst}}}
}

// DeriveKinds lists the HISTORY-dependent forgeries a malicious client can
// build from messages the server has already verified and accepted on its
// stream: none of them is validly signed by the stream identity (each differs
// from every honest submission in payload, hash type, signature bytes or
// claimed sender). A copy that differs only in the unauthenticated pub_key
// field or the outer seqno would still be authentic and is not generated.
var DeriveKinds = []string{
	"sig-new-data", "sig-flip-data", "sig-append-data", "sig-trunc-data",
	"sig-hash-sha256", "sig-hash-sha1", "sig-hash-sha256-new-data", "sig-new-data-hash0",
	"sig-pubkey-other-new-data", "sig-pubkey-self-new-data",
	"data-with-older-sig", "older-data-with-sig", "data-resigned-by-other", "data-resigned-other-ctx",
	"sig-data-reattributed", "sig-extended",
}

// Derive builds a history-dependent forgery of kind from the accepted honest
// message h of identity self and a second accepted honest message h2 of self
// (h2 == h if there is only one). other is another identity; fresh is a payload
// never submitted honestly; n drives the position of bit flips / cuts.
func Derive(kind string, h, h2 *signaling.SessionMsg, self, other *keys.Identity, fresh []byte, seqno uint64, n int) *signaling.SessionMsg {
	m := h.CloneVT()
	m.Seqno = seqno
	sm := m.SignedMsg
	sign := func(ctx string, id *keys.Identity, data []byte, inclPub bool) *peer.Signature {
		s, err := peer.NewSignature(ctx, id.Priv, hash.HashType_HashType_BLAKE3, data, inclPub)
		if err != nil {
			panic(err)
		}
		return s
	}
	switch kind {
	case "sig-new-data":
		sm.Data = fresh
	case "sig-flip-data":
		sm.Data[n%len(sm.Data)] ^= 1 << (uint(n>>8) % 8)
	case "sig-append-data":
		sm.Data = append(sm.Data, byte('a'+n%26))
	case "sig-trunc-data":
		sm.Data = sm.Data[:len(sm.Data)-1-n%(len(sm.Data)/2)]
	case "sig-hash-sha256":
		sm.Signature.HashType = hash.HashType_HashType_SHA256
	case "sig-hash-sha1":
		sm.Signature.HashType = hash.HashType_HashType_SHA1
	case "sig-hash-sha256-new-data":
		sm.Signature.HashType = hash.HashType_HashType_SHA256
		sm.Data = fresh
	case "sig-new-data-hash0":
		sm.Signature.HashType = hash.HashType_HashType_UNKNOWN
		sm.Data = fresh
	case "sig-pubkey-other-new-data":
		sm.Signature.PubKey = sign(SignalingContext, other, fresh, true).PubKey
		sm.Data = fresh
	case "sig-pubkey-self-new-data":
		sm.Signature.PubKey = sign(SignalingContext, self, fresh, true).PubKey
		sm.Data = fresh
	case "data-with-older-sig":
		if h2 != h {
			sm.Signature = h2.SignedMsg.Signature.CloneVT()
		} else {
			sm.Signature = sign(SignalingContext, self, fresh, false)
		}
	case "older-data-with-sig":
		if h2 != h {
			sm.Data = append([]byte(nil), h2.SignedMsg.Data...)
		} else {
			sm.Data = fresh
		}
	case "data-resigned-by-other":
		sm.Signature = sign(SignalingContext, other, sm.Data, false)
	case "data-resigned-other-ctx":
		sm.Signature = sign("verif/not the signaling context 2026-01-01", self, sm.Data, false)
	case "sig-data-reattributed":
		sm.FromPeerId = other.String()
	case "sig-extended":
		sm.Signature.SigData = append(sm.Signature.SigData, byte(n))
	default:
		panic(fmt.Sprintf("unknown derive kind %q", kind))
	}
	return m
}

// Attributed builds a session message whose three attribution inputs are
// chosen independently: the claimed sender (from_peer_id string), the key that
// really signs data under the signaling context, and the bytes of the
// signature's optional pub_key field (nil = absent). It is authentic for a
// stream identity I exactly if from == I and signer == I; the pub_key field is
// not authenticated by anything and never changes that.
func Attributed(from string, signer *keys.Identity, pubKey []byte, data []byte, seqno uint64) *signaling.SessionMsg {
	sig, err := peer.NewSignature(SignalingContext, signer.Priv, hash.HashType_HashType_BLAKE3, data, false)
	if err != nil {
		panic(err)
	}
	sig.PubKey = append([]byte(nil), pubKey...)
	return &signaling.SessionMsg{
		SignedMsg: &peer.SignedMsg{FromPeerId: from, Signature: sig, Data: append([]byte(nil), data...)},
		Seqno:     seqno,
	}
}

// PubKeyBytes returns the marshalled public key of id as it would appear in a
// signature's pub_key field.
func PubKeyBytes(id *keys.Identity) []byte {
	sig, err := peer.NewSignature(SignalingContext, id.Priv, hash.HashType_HashType_BLAKE3, []byte("pub"), true)
	if err != nil {
		panic(err)
	}
	if len(sig.PubKey) == 0 {
		panic("g7sig: NewSignature(inclPubKey) returned no pub_key")
	}
	return append([]byte(nil), sig.PubKey...)
}
