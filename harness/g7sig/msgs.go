package g7sig

import (
	"github.com/aperturerobotics/bifrost/hash"
	"github.com/aperturerobotics/bifrost/peer"
	signaling "github.com/aperturerobotics/bifrost/signaling/rpc"
	"verifharness/keys"
)

// Honest builds a session message signed by id under the signaling context.
func Honest(id *keys.Identity, payload []byte, seqno uint64) *signaling.SessionMsg {
	m, err := signaling.NewSessionMsg(id.Priv, hash.HashType_HashType_BLAKE3, payload, seqno)
	if err != nil {
		panic(err)
	}
	return m
}

// OtherContext builds a message correctly signed by id but under a different
// signing context (not a signaling message).
func OtherContext(id *keys.Identity, payload []byte, seqno uint64) *signaling.SessionMsg {
	sm, err := peer.NewSignedMsg("verif/not the signaling context 2026-01-01", id.Priv, hash.HashType_HashType_BLAKE3, payload)
	if err != nil {
		panic(err)
	}
	return &signaling.SessionMsg{SignedMsg: sm, Seqno: seqno}
}

// ReqSend wraps a message into a SendMsg request.
func ReqSend(sessSeqno uint64, m *signaling.SessionMsg) *signaling.SessionRequest {
	return &signaling.SessionRequest{SessionSeqno: sessSeqno, Body: &signaling.SessionRequest_SendMsg{SendMsg: m}}
}

// ReqAck builds an AckMsg request.
func ReqAck(sessSeqno, seq uint64) *signaling.SessionRequest {
	return &signaling.SessionRequest{SessionSeqno: sessSeqno, Body: &signaling.SessionRequest_AckMsg{AckMsg: seq}}
}

// ReqClear builds a ClearMsg request.
func ReqClear(sessSeqno, seq uint64) *signaling.SessionRequest {
	return &signaling.SessionRequest{SessionSeqno: sessSeqno, Body: &signaling.SessionRequest_ClearMsg{ClearMsg: seq}}
}

// ReqInit builds an Init request.
func ReqInit(sessSeqno uint64, dst string) *signaling.SessionRequest {
	return &signaling.SessionRequest{SessionSeqno: sessSeqno, Body: &signaling.SessionRequest_Init{Init: &signaling.SessionInit{PeerId: dst}}}
}
