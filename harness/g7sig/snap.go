// Package g7sig is "Harness A": the real signaling relay server driven through
// hand-written fake streams, plus a condition-based quiescence detector.
package g7sig

import (
	"runtime"
	"strconv"
	"strings"
	"sync"
)

// A snapshot is one parsed runtime.Stack(all) dump, reduced to the goroutines
// that run signaling-server code, grouped by the *Server they belong to.
type snapshot struct {
	seq uint64
	// bySrv: server pointer (hex without 0x) -> info
	bySrv map[string]*srvInfo
	// unattributed: a goroutine with a server frame that could not be mapped to a
	// server (an orphaned read goroutine whose Session call already returned).
	unattributed int
	total        int
}

type srvInfo struct {
	mains     int // goroutines inside (*Server).Session / (*Server).Listen
	readers   int // read goroutines created by (*Server).Session
	notParked int // of the above: not parked in select / chan receive
	states    []string
}

const srvPkg = "github.com/aperturerobotics/bifrost/signaling/rpc/server."

var (
	snapMu      sync.Mutex
	snapCond    = sync.NewCond(&snapMu)
	snapStarted uint64
	snapDone    uint64
	snapRunning bool
	snapLast    *snapshot
	snapBuf     []byte
	// SnapCount counts snapshots taken (evidence).
	snapTaken uint64
)

// snapAfterNow returns a snapshot whose stop-the-world instant is after the
// call. Concurrent callers share snapshots.
func snapAfterNow() *snapshot {
	snapMu.Lock()
	need := snapStarted + 1
	for snapDone < need {
		if snapRunning {
			snapCond.Wait()
			continue
		}
		snapRunning = true
		snapStarted++
		n := snapStarted
		snapMu.Unlock()
		s := takeSnapshot()
		s.seq = n
		snapMu.Lock()
		snapLast = s
		snapDone = n
		snapTaken++
		snapRunning = false
		snapCond.Broadcast()
	}
	s := snapLast
	snapMu.Unlock()
	return s
}

// SnapshotsTaken returns the number of stack snapshots taken so far.
func SnapshotsTaken() uint64 {
	snapMu.Lock()
	defer snapMu.Unlock()
	return snapTaken
}

func takeSnapshot() *snapshot {
	if snapBuf == nil {
		snapBuf = make([]byte, 4<<20)
	}
	for {
		n := runtime.Stack(snapBuf, true)
		if n < len(snapBuf) {
			return parseSnapshot(string(snapBuf[:n]))
		}
		snapBuf = make([]byte, 2*len(snapBuf))
	}
}

type gor struct {
	id      string
	state   string
	srvPtr  string // from a (*Server).Session( / .Listen( frame
	parent  string // "created by ... in goroutine N"
	isSrv   bool   // has any frame of the server package
	isMain  bool
	created string
}

func parked(state string) bool {
	// "select", "select, 2 minutes", "chan receive", "chan receive, 1 minutes"
	if i := strings.IndexByte(state, ','); i >= 0 {
		state = state[:i]
	}
	return state == "select" || state == "chan receive"
}

func parseSnapshot(txt string) *snapshot {
	s := &snapshot{bySrv: map[string]*srvInfo{}}
	var gs []*gor
	byID := map[string]*gor{}
	for len(txt) > 0 {
		var blk string
		if i := strings.Index(txt, "\n\n"); i >= 0 {
			blk, txt = txt[:i], txt[i+2:]
		} else {
			blk, txt = txt, ""
		}
		if !strings.HasPrefix(blk, "goroutine ") {
			continue
		}
		s.total++
		if !strings.Contains(blk, srvPkg) {
			continue
		}
		nl := strings.IndexByte(blk, '\n')
		if nl < 0 {
			continue
		}
		head := blk[:nl]
		g := &gor{}
		// "goroutine 12 [select]:" or "goroutine 12 gp=... m=... [select]:"
		rest := head[len("goroutine "):]
		if sp := strings.IndexByte(rest, ' '); sp > 0 {
			g.id = rest[:sp]
		}
		if lb := strings.IndexByte(head, '['); lb >= 0 {
			if rb := strings.LastIndexByte(head, ']'); rb > lb {
				g.state = head[lb+1 : rb]
			}
		}
		body := blk[nl+1:]
		for _, ln := range strings.Split(body, "\n") {
			if len(ln) == 0 || ln[0] == '\t' {
				continue
			}
			if strings.HasPrefix(ln, "created by ") {
				g.created = ln
				if i := strings.LastIndex(ln, " in goroutine "); i >= 0 {
					g.parent = strings.TrimSpace(ln[i+len(" in goroutine "):])
				}
				continue
			}
			if !strings.HasPrefix(ln, srvPkg) {
				continue
			}
			g.isSrv = true
			fn := ln[len(srvPkg):]
			for _, m := range []string{"(*Server).Session(", "(*Server).Listen("} {
				if strings.HasPrefix(fn, m) {
					arg := fn[len(m):]
					if strings.HasPrefix(arg, "0x") {
						arg = arg[2:]
						j := 0
						for j < len(arg) && (arg[j] >= '0' && arg[j] <= '9' || arg[j] >= 'a' && arg[j] <= 'f') {
							j++
						}
						if j > 0 {
							g.srvPtr = arg[:j]
							g.isMain = true
						}
					}
				}
			}
		}
		if !g.isSrv {
			// only "created by" mentions the package (cannot happen for the
			// server, whose children all run server closures), ignore
			if !strings.Contains(g.created, srvPkg) {
				continue
			}
		}
		gs = append(gs, g)
		byID[g.id] = g
	}
	for _, g := range gs {
		ptr := g.srvPtr
		if ptr == "" && g.parent != "" {
			if p := byID[g.parent]; p != nil {
				ptr = p.srvPtr
			}
		}
		if ptr == "" {
			s.unattributed++
			continue
		}
		in := s.bySrv[ptr]
		if in == nil {
			in = &srvInfo{}
			s.bySrv[ptr] = in
		}
		if g.isMain {
			in.mains++
		} else {
			in.readers++
		}
		if !parked(g.state) {
			in.notParked++
		}
		in.states = append(in.states, g.state)
	}
	return s
}

func ptrHex(p uintptr) string { return strconv.FormatUint(uint64(p), 16) }
