package g1util

import (
	"bytes"
	"math/rand/v2"
)

// Large bodies: lengths at, one below and one above internal block boundaries
// (powers of two from 1 KiB, multiples of 64 KiB) and lengths with a long
// trailing partial block.
var (
	MidBodySizes   = []int{1023, 1025, 4097, 8191, 16385, 32767, 32769}
	LargeBodySizes = []int{65535, 65537, 131071, 131072, 131073, 150000}
	HugeBodySizes  = []int{1<<20 + 1, 1<<20 - 1, 1 << 20, 3<<16 + 7}
)

// TailCase is one alteration of a body confined to its end (or, Full, to the
// blocks in front of the last one).
type TailCase struct {
	Name string
	Data []byte
	Full bool
}

// LastBlockStart is the offset of the last (partial, else full) block of n bytes.
func LastBlockStart(n, blk int) int {
	if n == 0 {
		return 0
	}
	if rem := n % blk; rem != 0 {
		return n - rem
	}
	if n >= blk {
		return n - blk
	}
	return 0
}

// TailCases returns alterations of body (len >= 2) at its end with respect to
// block size blk: every result differs from body. few: only the cheapest core set.
func TailCases(body []byte, blk int, rng *rand.Rand, few bool) []TailCase {
	n := len(body)
	st := LastBlockStart(n, blk)
	var out []TailCase
	mod := func(name string, full bool, f func(b []byte) []byte) {
		b := f(append([]byte(nil), body...))
		if bytes.Equal(b, body) {
			return
		}
		out = append(out, TailCase{Name: name, Data: b, Full: full})
	}
	bit := func() byte { return byte(1) << rng.UintN(8) }
	mod("flip-last-byte", false, func(b []byte) []byte { b[n-1] ^= bit(); return b })
	mod("flip-first-of-last-block", false, func(b []byte) []byte { b[st] ^= bit(); return b })
	mod("drop-last-block", false, func(b []byte) []byte {
		if st == 0 {
			return b[:n-1]
		}
		return b[:st]
	})
	mod("rewrite-last-16", false, func(b []byte) []byte { copy(b[n-min(16, n):], "EVIL-CANDIDATE!!"); return b })
	mod("full:flip-in-full-blocks", true, func(b []byte) []byte {
		if st > 0 {
			b[rng.IntN(st)] ^= bit()
		} else {
			b[0] ^= bit()
		}
		return b
	})
	if few {
		return out
	}
	mod("flip-in-last-block", false, func(b []byte) []byte { b[st+rng.IntN(n-st)] ^= bit(); return b })
	mod("zero-last-block", false, func(b []byte) []byte {
		for i := st; i < n; i++ {
			b[i] = 0
		}
		return b
	})
	mod("rewrite-last-block", false, func(b []byte) []byte {
		for i := st; i < n; i++ {
			b[i] = byte(rng.UintN(256))
		}
		return b
	})
	mod("last-block-from-prefix", false, func(b []byte) []byte { copy(b[st:], body[:n-st]); return b })
	mod("drop-last-byte", false, func(b []byte) []byte { return b[:n-1] })
	mod("append-byte", false, func(b []byte) []byte { return append(b, byte(rng.UintN(256))) })
	mod("extend-to-block", false, func(b []byte) []byte {
		for m := (n/blk + 1) * blk; len(b) < m; {
			b = append(b, byte(rng.UintN(256)))
		}
		return b
	})
	mod("flip-last-of-full-blocks", false, func(b []byte) []byte {
		if st > 0 {
			b[st-1] ^= bit()
		}
		return b
	})
	mod("full:flip-first-byte", true, func(b []byte) []byte { b[0] ^= bit(); return b })
	return out
}

// FastBytes returns n PRNG bytes (8 per PRNG call; for large bodies).
func FastBytes(rng *rand.Rand, n int) []byte {
	b := make([]byte, n)
	for i := 0; i < n; i += 8 {
		v := rng.Uint64()
		for j := 0; j < 8 && i+j < n; j++ {
			b[i+j] = byte(v >> (8 * j))
		}
	}
	return b
}
