package g1util

import (
	"bytes"
	"crypto/ed25519"
	"fmt"
	"math/rand/v2"
	"sync"

	"github.com/aperturerobotics/bifrost/crypto"
)

// Key is an identity whose ground truth (seed, standard-library key pair) is
// held by the harness next to the bifrost key objects built from the same seed.
type Key struct {
	Idx  int
	Seed []byte
	Std  ed25519.PrivateKey // 64 bytes: seed || pub
	Pub  []byte             // 32 bytes
	Priv crypto.PrivKey
	PubK crypto.PubKey
}

// NewKey builds a key from the PRNG. It fails loudly (panic = harness broken)
// if the bifrost key generated from the seed is not the standard-library key
// of that seed; the checks rely on that correspondence as ground truth.
func NewKey(rng *rand.Rand, idx int) *Key {
	seed := make([]byte, ed25519.SeedSize)
	for i := range seed {
		seed[i] = byte(rng.UintN(256))
	}
	return KeyFromSeed(seed, idx)
}

// KeyFromSeed builds the key of a 32-byte seed (see NewKey).
func KeyFromSeed(seed []byte, idx int) *Key {
	std := ed25519.NewKeyFromSeed(seed)
	priv, pub, err := crypto.GenerateEd25519Key(bytes.NewReader(seed))
	if err != nil {
		panic(err)
	}
	raw, err := priv.Raw()
	if err != nil || !bytes.Equal(raw, std) {
		panic(fmt.Sprintf("g1util: generated key does not correspond to its seed (err=%v)", err))
	}
	return &Key{Idx: idx, Seed: seed, Std: std, Pub: []byte(std[32:]), Priv: priv, PubK: pub}
}

// KeyPool builds n keys.
func KeyPool(rng *rand.Rand, n int) []*Key {
	out := make([]*Key, n)
	for i := range out {
		out[i] = NewKey(rng, i)
	}
	return out
}

// RandBytes returns n PRNG bytes.
func RandBytes(rng *rand.Rand, n int) []byte {
	b := make([]byte, n)
	for i := range b {
		b[i] = byte(rng.UintN(256))
	}
	return b
}

// interesting byte values for mutation
var interesting = []byte{0x00, 0x01, 0x02, 0x07, 0x08, 0x0a, 0x10, 0x12, 0x1a, 0x20, 0x22, 0x24, 0x40, 0x7f, 0x80, 0x81, 0xfe, 0xff}

// Mutate returns a mutated copy of b (1..4 stacked byte-level mutations:
// bit flip, byte set, insert, delete, truncate, duplicate a chunk, splice a
// chunk of other, overwrite with a varint-boundary pattern).
func Mutate(rng *rand.Rand, b []byte, other []byte) []byte {
	out := append([]byte(nil), b...)
	k := 1 + rng.IntN(4)
	gentle := rng.IntN(2) == 0 // half of the mutants: one in-place change (keeps most framing intact)
	if gentle {
		k = 1
	}
	for ; k > 0; k-- {
		op := rng.IntN(10)
		if gentle {
			op = []int{0, 1, 2, 9, 0, 2}[rng.IntN(6)]
		}
		switch op {
		case 0, 1: // bit flip
			if len(out) > 0 {
				i := rng.IntN(len(out))
				out[i] ^= 1 << rng.UintN(8)
			}
		case 2: // set byte to interesting / random
			if len(out) > 0 {
				i := rng.IntN(len(out))
				if rng.IntN(2) == 0 {
					out[i] = interesting[rng.IntN(len(interesting))]
				} else {
					out[i] = byte(rng.UintN(256))
				}
			}
		case 3: // insert
			i := rng.IntN(len(out) + 1)
			ins := RandBytes(rng, 1+rng.IntN(4))
			if rng.IntN(2) == 0 {
				for j := range ins {
					ins[j] = interesting[rng.IntN(len(interesting))]
				}
			}
			out = append(out[:i], append(ins, out[i:]...)...)
		case 4: // delete
			if len(out) > 0 {
				i := rng.IntN(len(out))
				n := 1 + rng.IntN(min(4, len(out)-i))
				out = append(out[:i], out[i+n:]...)
			}
		case 5: // truncate
			if len(out) > 0 {
				out = out[:rng.IntN(len(out))]
			}
		case 6: // duplicate chunk
			if len(out) > 1 {
				i := rng.IntN(len(out))
				n := 1 + rng.IntN(min(16, len(out)-i))
				chunk := append([]byte(nil), out[i:i+n]...)
				j := rng.IntN(len(out) + 1)
				out = append(out[:j], append(chunk, out[j:]...)...)
			}
		case 7: // splice from other
			if len(other) > 0 {
				i := rng.IntN(len(other))
				n := 1 + rng.IntN(min(40, len(other)-i))
				chunk := other[i : i+n]
				if len(out) == 0 || rng.IntN(2) == 0 {
					j := rng.IntN(len(out) + 1)
					out = append(out[:j], append(append([]byte(nil), chunk...), out[j:]...)...)
				} else {
					j := rng.IntN(len(out))
					copy(out[j:], chunk)
				}
			}
		case 8: // long varint pattern
			if len(out) > 0 {
				i := rng.IntN(len(out))
				pat := bytes.Repeat([]byte{0xff}, 1+rng.IntN(10))
				if rng.IntN(2) == 0 {
					pat[len(pat)-1] = byte(rng.UintN(3))
				}
				out = append(out[:i], append(pat, out[i:]...)...)
			}
		case 9: // swap two bytes
			if len(out) > 1 {
				i, j := rng.IntN(len(out)), rng.IntN(len(out))
				out[i], out[j] = out[j], out[i]
			}
		}
	}
	return out
}

// Parallel runs fn(worker) for worker = 0..n-1 concurrently and waits.
func Parallel(n int, fn func(w int)) {
	var wg sync.WaitGroup
	for w := 0; w < n; w++ {
		wg.Add(1)
		go func() { defer wg.Done(); fn(w) }()
	}
	wg.Wait()
}
