// Package g1util holds the reference models and input generators shared by
// the g1 checks (C01, C02, C10, C11). Nothing in this file calls the bifrost
// functions that the checks judge: base58, multihash, the key protobuf, the
// documented sign body and the hash functions are re-implemented from their
// specifications on top of the standard library (and lukechampine.com/blake3,
// an implementation of BLAKE3 independent of the one bifrost uses).
package g1util

import (
	"bytes"
	"crypto/ed25519"
	"crypto/sha1"
	"crypto/sha256"
	"math/big"
	"strconv"
	"strings"

	lblake3 "lukechampine.com/blake3"
)

// ---- base58 (bitcoin alphabet), written from the specification ----

const b58Alphabet = "123456789ABCDEFGHJKLMNPQRSTUVWXYZabcdefghijkmnopqrstuvwxyz"

var b58Index = func() (t [256]int) {
	for i := range t {
		t[i] = -1
	}
	for i := 0; i < len(b58Alphabet); i++ {
		t[b58Alphabet[i]] = i
	}
	return
}()

// B58Decode is the reference base58 decoder. ok=false for the empty string or
// any byte outside the alphabet.
func B58Decode(s string) (out []byte, ok bool) {
	if len(s) == 0 {
		return nil, false
	}
	zeros := 0
	for zeros < len(s) && s[zeros] == '1' {
		zeros++
	}
	n := new(big.Int)
	r := big.NewInt(58)
	for i := 0; i < len(s); i++ {
		d := b58Index[s[i]]
		if d < 0 {
			return nil, false
		}
		n.Mul(n, r)
		n.Add(n, big.NewInt(int64(d)))
	}
	body := n.Bytes()
	out = make([]byte, zeros+len(body))
	copy(out[zeros:], body)
	return out, true
}

// B58Encode is the reference base58 encoder.
func B58Encode(b []byte) string {
	zeros := 0
	for zeros < len(b) && b[zeros] == 0 {
		zeros++
	}
	n := new(big.Int).SetBytes(b)
	r := big.NewInt(58)
	m := new(big.Int)
	var rev []byte
	for n.Sign() > 0 {
		n.DivMod(n, r, m)
		rev = append(rev, b58Alphabet[m.Int64()])
	}
	for i := 0; i < zeros; i++ {
		rev = append(rev, '1')
	}
	for i, j := 0, len(rev)-1; i < j; i, j = i+1, j-1 {
		rev[i], rev[j] = rev[j], rev[i]
	}
	return string(rev)
}

// IsB58 reports whether every byte of s is in the alphabet (and s non-empty).
func IsB58(s string) bool {
	if s == "" {
		return false
	}
	for i := 0; i < len(s); i++ {
		if b58Index[s[i]] < 0 {
			return false
		}
	}
	return true
}

// B58Alphabet returns the alphabet.
func B58Alphabet() string { return b58Alphabet }

// ---- unsigned LEB128 varint ----

// Uvarint decodes an unsigned varint of at most 10 bytes that fits in 64
// bits. Non-minimal encodings are accepted (the property does not speak about
// them). n = number of bytes consumed; ok=false on truncation or overflow.
func Uvarint(b []byte) (v uint64, n int, ok bool) {
	var shift uint
	for i := 0; i < len(b); i++ {
		c := b[i]
		if i == 9 && c > 1 {
			return 0, 0, false // overflows 64 bits
		}
		if i > 9 {
			return 0, 0, false
		}
		v |= uint64(c&0x7f) << shift
		if c < 0x80 {
			return v, i + 1, true
		}
		shift += 7
	}
	return 0, 0, false // truncated
}

// PutUvarint appends the minimal varint of v.
func PutUvarint(dst []byte, v uint64) []byte {
	for v >= 0x80 {
		dst = append(dst, byte(v)|0x80)
		v >>= 7
	}
	return append(dst, byte(v))
}

// ---- multihash ----

// ParseMultihash is the reference for "well-formed multihash":
// uvarint code || uvarint n || exactly n bytes.
func ParseMultihash(b []byte) (code uint64, digest []byte, ok bool) {
	code, n, ok := Uvarint(b)
	if !ok {
		return 0, nil, false
	}
	b = b[n:]
	dl, n, ok := Uvarint(b)
	if !ok {
		return 0, nil, false
	}
	b = b[n:]
	if uint64(len(b)) != dl {
		return 0, nil, false
	}
	return code, b, true
}

// Multihash builds code || len || digest with minimal varints.
func Multihash(code uint64, digest []byte) []byte {
	out := PutUvarint(nil, code)
	out = PutUvarint(out, uint64(len(digest)))
	return append(out, digest...)
}

// ---- the key protobuf: message { enum key_type = 1; bytes data = 2; } ----

// Status of a reference parse.
type Status int

const (
	// Invalid: by the protobuf wire rules this is not a marshalled key.
	Invalid Status = iota
	// Valid: decodes to (key_type, data) unambiguously.
	Valid
	// Ambiguous: inputs on which conforming decoders may legitimately differ
	// (field numbers beyond 2^29-1, enum varints wider than 32 bits, a known
	// field with an unexpected wire type, groups). No verdict is based on them.
	Ambiguous
)

// KeyTypeEd25519 is the libp2p-compatible key type value.
const KeyTypeEd25519 = 1

// uvarintP is Uvarint for the protobuf decoder: an over-long / overflowing
// varint is reported separately (decoders differ on it: no verdict).
func uvarintP(b []byte) (v uint64, n int, ok, overflow bool) {
	v, n, ok = Uvarint(b)
	if ok {
		return v, n, true, false
	}
	// truncated (ran out of bytes with the continuation bit set) vs. overflow
	for i := 0; i < len(b) && i < 10; i++ {
		if b[i] < 0x80 {
			return 0, 0, false, true // terminated within 10 bytes but rejected: overflow
		}
	}
	if len(b) >= 10 {
		return 0, 0, false, true
	}
	return 0, 0, false, false
}

// ParseKeyProto is the reference decoder for crypto.PublicKey / PrivateKey.
func ParseKeyProto(b []byte) (keyType uint64, data []byte, st Status) {
	i := 0
	amb := false
	bad := func(overflow bool) (uint64, []byte, Status) {
		if overflow {
			return 0, nil, Ambiguous
		}
		return 0, nil, Invalid
	}
	for i < len(b) {
		tag, n, ok, ov := uvarintP(b[i:])
		if !ok {
			return bad(ov)
		}
		i += n
		fn, wt := tag>>3, tag&7
		if fn == 0 {
			return 0, nil, Invalid
		}
		if fn > (1<<29)-1 {
			amb = true
		}
		switch {
		case fn == 1 && wt == 0:
			v, n, ok, ov := uvarintP(b[i:])
			if !ok {
				return bad(ov)
			}
			i += n
			if v > 0xffffffff {
				amb = true
			}
			keyType = v
		case fn == 2 && wt == 2:
			l, n, ok, ov := uvarintP(b[i:])
			if !ok {
				return bad(ov)
			}
			i += n
			if l > uint64(len(b)-i) {
				return 0, nil, Invalid
			}
			data = b[i : i+int(l)]
			i += int(l)
		default:
			if fn == 1 || fn == 2 {
				amb = true
			}
			switch wt {
			case 0:
				_, n, ok, ov := uvarintP(b[i:])
				if !ok {
					return bad(ov)
				}
				i += n
			case 1:
				if len(b)-i < 8 {
					return 0, nil, Invalid
				}
				i += 8
			case 2:
				l, n, ok, ov := uvarintP(b[i:])
				if !ok {
					return bad(ov)
				}
				i += n
				if l > uint64(len(b)-i) {
					return 0, nil, Invalid
				}
				i += int(l)
			case 5:
				if len(b)-i < 4 {
					return 0, nil, Invalid
				}
				i += 4
			case 3, 4:
				// groups: deprecated; decoders differ. Give no verdict.
				return 0, nil, Ambiguous
			default:
				return 0, nil, Invalid
			}
		}
	}
	if amb {
		return keyType, data, Ambiguous
	}
	return keyType, data, Valid
}

// ParseEd25519PubProto: reference for "a valid marshalled (Ed25519) public key".
func ParseEd25519PubProto(b []byte) (pub []byte, st Status) {
	kt, data, st := ParseKeyProto(b)
	if st != Valid {
		return nil, st
	}
	if kt != KeyTypeEd25519 || len(data) != ed25519.PublicKeySize {
		return nil, Invalid
	}
	return data, Valid
}

// MarshalKeyProto builds the canonical encoding (field 1 then field 2).
func MarshalKeyProto(keyType uint64, data []byte) []byte {
	out := []byte{0x08}
	out = PutUvarint(out, keyType)
	out = append(out, 0x12)
	out = PutUvarint(out, uint64(len(data)))
	return append(out, data...)
}

// RefPeerIDBytes is the documented peer ID of an Ed25519 public key: identity
// multihash over the marshalled key.
func RefPeerIDBytes(pub []byte) []byte {
	return Multihash(0, MarshalKeyProto(KeyTypeEd25519, pub))
}

// PubFromIDBytes extracts the Ed25519 key embedded in raw peer ID bytes.
func PubFromIDBytes(id []byte) (pub []byte, st Status) {
	code, digest, ok := ParseMultihash(id)
	if !ok || code != 0 {
		return nil, Invalid
	}
	return ParseEd25519PubProto(digest)
}

// PubFromIDString extracts the Ed25519 key embedded in a base58 peer ID.
func PubFromIDString(s string) (pub []byte, st Status) {
	b, ok := B58Decode(s)
	if !ok {
		// surrounding whitespace: a tolerant text decoder would still name the
		// same sender; treated as an alias of the sender, not as a forgery
		b, ok = B58Decode(strings.TrimSpace(s))
	}
	if !ok {
		return nil, Invalid
	}
	return PubFromIDBytes(b)
}

// ---- hashes and the documented sign body ----

// Hash type values (hash.proto).
const (
	HashUnknown = 0
	HashSHA256  = 1
	HashSHA1    = 2
	HashBLAKE3  = 3
)

// SupportedHash reports whether t is one of the three supported hash types.
func SupportedHash(t int32) bool { return t >= 1 && t <= 3 }

// Sum is the reference digest for a supported hash type.
func Sum(t int32, data []byte) ([]byte, bool) {
	switch t {
	case HashSHA256:
		h := sha256.Sum256(data)
		return h[:], true
	case HashSHA1:
		h := sha1.Sum(data)
		return h[:], true
	case HashBLAKE3:
		h := lblake3.Sum256(data)
		return h[:], true
	}
	return nil, false
}

// Sep is the documented separator of the sign body.
const Sep = " - SIGN - "

// SignBodyHashed = ctx || Sep || itoa(type) || Sep || digest.
func SignBodyHashed(ctx string, t int32, digest []byte) []byte {
	return bytes.Join([][]byte{[]byte(ctx), []byte(strconv.Itoa(int(t))), digest}, []byte(Sep))
}

// SignBody is the documented sign body; ok=false for unsupported hash types.
func SignBody(ctx string, t int32, data []byte) ([]byte, bool) {
	d, ok := Sum(t, data)
	if !ok {
		return nil, false
	}
	return SignBodyHashed(ctx, t, d), true
}

// RefSign signs with the standard library.
func RefSign(priv ed25519.PrivateKey, ctx string, t int32, data []byte) ([]byte, bool) {
	body, ok := SignBody(ctx, t, data)
	if !ok {
		return nil, false
	}
	return ed25519.Sign(priv, body), true
}

// RefVerify: is sig an Ed25519 signature by pub over the documented sign body
// of (ctx, t, data)? false for unsupported hash types, malformed keys/sigs.
func RefVerify(pub []byte, ctx string, t int32, data, sig []byte) bool {
	if len(pub) != ed25519.PublicKeySize || len(sig) != ed25519.SignatureSize {
		return false
	}
	body, ok := SignBody(ctx, t, data)
	if !ok {
		return false
	}
	return ed25519.Verify(ed25519.PublicKey(pub), body, sig)
}

// RefAuthentic is the reference for C01: a signed message (claimed sender in
// base58, body, hash type, signature bytes) is authentic under the verifier
// context iff the body is non-empty, the claimed sender ID embeds an Ed25519
// key and sig is that key's signature over the documented sign body.
// st=Ambiguous when the sender ID is one the reference gives no verdict on.
func RefAuthentic(from string, ctx string, t int32, data, sig []byte) (auth bool, pub []byte, st Status) {
	pub, st = PubFromIDString(from)
	if st != Valid {
		return false, nil, st
	}
	if len(data) == 0 {
		return false, pub, Valid
	}
	return RefVerify(pub, ctx, t, data, sig), pub, Valid
}
